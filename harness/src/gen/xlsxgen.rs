//! Grammar-based xlsx generator (DESIGN 3.7): chooses the MEANING of every sheet and cell
//! first, then one of the encodings the file format allows for that meaning, and writes the
//! zip + XML itself (zip crate + hand-written XML, no library code).  The expected decode
//! (`pyworker::Decoded`, the same type the Python decoder answers with) is known by
//! construction.
use crate::pyworker::*;

pub mod esc;
pub mod render;
pub mod sheet;
pub mod spec;
pub mod styles;
pub use render::{model_diff, render, Rendered};
pub use sheet::Steer;
pub use spec::*;

/// ST_Xstring decoding (ECMA-376 22.9.2.19) for the classifier: `_xHHHH_` -> character.
pub fn xstring_decode(s: &str) -> String {
    let b: Vec<char> = s.chars().collect();
    let mut out = String::new();
    let mut i = 0;
    while i < b.len() {
        if b[i] == '_' && i + 6 < b.len() && b[i + 1] == 'x' && b[i + 6] == '_' && b[i + 2..i + 6].iter().all(|c| c.is_ascii_hexdigit()) {
            let h: String = b[i + 2..i + 6].iter().collect();
            if let Some(c) = u32::from_str_radix(&h, 16).ok().and_then(char::from_u32) {
                out.push(c);
                i += 7;
                continue;
            }
        }
        out.push(b[i]);
        i += 1;
    }
    out
}

pub const MAX_COL: u32 = 16384;
pub const MAX_ROW: u32 = 1_048_576;

// ---------------------------------------------------------------------------------------
// A1 helpers (written for the harness; the library's codecs are under test elsewhere)

pub fn col_letters(mut n: u32) -> String {
    let mut s = Vec::new();
    while n > 0 {
        let r = (n - 1) % 26;
        s.push(b'A' + r as u8);
        n = (n - 1) / 26;
    }
    s.reverse();
    String::from_utf8(s).unwrap()
}

pub fn col_number(s: &str) -> Option<u32> {
    if s.is_empty() || s.len() > 3 {
        return None;
    }
    let mut n = 0u32;
    for b in s.bytes() {
        let u = b.to_ascii_uppercase();
        if !u.is_ascii_uppercase() {
            return None;
        }
        n = n * 26 + (u - b'A' + 1) as u32;
    }
    Some(n)
}

pub fn a1(col: u32, row: u32) -> String {
    format!("{}{}", col_letters(col), row)
}

/// "B12" / "$B$12" -> (col,row)
pub fn parse_a1(s: &str) -> Option<(u32, u32)> {
    let t: String = s.chars().filter(|c| *c != '$').collect();
    let split = t.find(|c: char| c.is_ascii_digit())?;
    let (l, d) = t.split_at(split);
    if d.is_empty() || !d.bytes().all(|b| b.is_ascii_digit()) {
        return None;
    }
    let col = col_number(l)?;
    let row: u32 = d.parse().ok()?;
    if col < 1 || col > MAX_COL || row < 1 || row > MAX_ROW {
        return None;
    }
    Some((col, row))
}

// ---------------------------------------------------------------------------------------
// reference lexer / translator for formula text (the generator's own model of ECMA-376
// 18.3.1.40: relative parts move with the cell offset, `$` parts do not)

#[derive(Debug, Clone, PartialEq)]
enum Piece<'a> {
    Text(&'a str),
    Cell { col_abs: bool, col: u32, row_abs: bool, row: u32 },
    Cols { a_abs: bool, a: u32, b_abs: bool, b: u32 },
    Rows { a_abs: bool, a: u32, b_abs: bool, b: u32 },
}

fn is_ident_char(c: char) -> bool {
    c.is_alphanumeric() || c == '_' || c == '.' || c == '\\' || c == '?' || (c as u32) >= 0x80
}

fn lex(text: &str) -> Vec<Piece<'_>> {
    let b: Vec<(usize, char)> = text.char_indices().collect();
    let n = b.len();
    let mut out = Vec::new();
    let mut i = 0usize;
    let pos = |k: usize| if k < n { b[k].0 } else { text.len() };
    while i < n {
        let c = b[i].1;
        if c == '"' || c == '\'' {
            let q = c;
            let mut j = i + 1;
            while j < n {
                if b[j].1 == q {
                    if j + 1 < n && b[j + 1].1 == q {
                        j += 2;
                        continue;
                    }
                    break;
                }
                j += 1;
            }
            let end = (j + 1).min(n);
            out.push(Piece::Text(&text[pos(i)..pos(end)]));
            i = end;
            continue;
        }
        if c == '[' {
            let mut depth = 0i32;
            let mut j = i;
            while j < n {
                match b[j].1 {
                    '[' => depth += 1,
                    ']' => {
                        depth -= 1;
                        if depth == 0 {
                            break;
                        }
                    }
                    '\'' => j += 1,
                    _ => {}
                }
                j += 1;
            }
            let end = (j + 1).min(n);
            out.push(Piece::Text(&text[pos(i)..pos(end)]));
            i = end;
            continue;
        }
        let prev = if i > 0 { Some(b[i - 1].1) } else { None };
        let boundary = !prev.map_or(false, |p| is_ident_char(p) || p == '$');
        if boundary && (c == '$' || c.is_ascii_alphanumeric()) {
            // try cell, then column range, then row range
            if let Some((piece, len)) = match_ref(&b[i..]) {
                let nxt = if i + len < n { Some(b[i + len].1) } else { None };
                if !nxt.map_or(false, |x| is_ident_char(x) || x == '(' || x == '!' || x == '$') {
                    out.push(piece);
                    i += len;
                    continue;
                }
            }
            let mut j = i;
            while j < n && (is_ident_char(b[j].1) || b[j].1 == '$') {
                j += 1;
            }
            if j == i {
                j = i + 1;
            }
            out.push(Piece::Text(&text[pos(i)..pos(j)]));
            i = j;
            continue;
        }
        out.push(Piece::Text(&text[pos(i)..pos(i + 1)]));
        i += 1;
    }
    out
}

fn take_while(b: &[(usize, char)], from: usize, f: impl Fn(char) -> bool, max: usize) -> usize {
    let mut k = from;
    while k < b.len() && k - from < max && f(b[k].1) {
        k += 1;
    }
    k
}

fn match_ref<'a>(b: &[(usize, char)]) -> Option<(Piece<'a>, usize)> {
    let s = |a: usize, z: usize| -> String { b[a..z].iter().map(|x| x.1).collect() };
    let mut i = 0;
    let abs1 = i < b.len() && b[i].1 == '$';
    if abs1 {
        i += 1;
    }
    let l0 = i;
    let l1 = take_while(b, l0, |c| c.is_ascii_alphabetic(), 4);
    if l1 > l0 && l1 - l0 <= 3 {
        // letters: cell or column range
        let col = col_number(&s(l0, l1))?;
        let mut k = l1;
        let abs2 = k < b.len() && b[k].1 == '$';
        if abs2 {
            k += 1;
        }
        let d0 = k;
        let d1 = take_while(b, d0, |c| c.is_ascii_digit(), 8);
        if d1 > d0 && d1 - d0 <= 7 && b[d0].1 != '0' {
            let row: u32 = s(d0, d1).parse().ok()?;
            if col <= MAX_COL && row >= 1 && row <= MAX_ROW {
                return Some((Piece::Cell { col_abs: abs1, col, row_abs: abs2, row }, d1));
            }
            return None;
        }
        // column range  A:B
        if !abs2 && l1 < b.len() && b[l1].1 == ':' {
            let mut k = l1 + 1;
            let abs_b = k < b.len() && b[k].1 == '$';
            if abs_b {
                k += 1;
            }
            let m0 = k;
            let m1 = take_while(b, m0, |c| c.is_ascii_alphabetic(), 4);
            if m1 > m0 && m1 - m0 <= 3 {
                let colb = col_number(&s(m0, m1))?;
                // must not continue with digits (that would be A:B2 - not a reference form)
                if m1 < b.len() && b[m1].1.is_ascii_digit() {
                    return None;
                }
                if col <= MAX_COL && colb <= MAX_COL {
                    return Some((Piece::Cols { a_abs: abs1, a: col, b_abs: abs_b, b: colb }, m1));
                }
            }
        }
        return None;
    }
    // digits: row range 1:2
    let d0 = i;
    let d1 = take_while(b, d0, |c| c.is_ascii_digit(), 8);
    if d1 > d0 && d1 - d0 <= 7 && d1 < b.len() && b[d1].1 == ':' {
        let mut k = d1 + 1;
        let abs_b = k < b.len() && b[k].1 == '$';
        if abs_b {
            k += 1;
        }
        let e0 = k;
        let e1 = take_while(b, e0, |c| c.is_ascii_digit(), 8);
        if e1 > e0 && e1 - e0 <= 7 {
            let ra: u32 = s(d0, d1).parse().ok()?;
            let rb: u32 = s(e0, e1).parse().ok()?;
            if ra >= 1 && ra <= MAX_ROW && rb >= 1 && rb <= MAX_ROW {
                return Some((Piece::Rows { a_abs: abs1, a: ra, b_abs: abs_b, b: rb }, e1));
            }
        }
    }
    None
}

fn wrap(v: i64, max: u32) -> u32 {
    (((v - 1).rem_euclid(max as i64)) + 1) as u32
}

/// Move every relative reference part by (dcol, drow).  Positions that leave the grid wrap
/// around (callers do not generate such formulas; the decoder flags them as uncertain).
pub fn translate(text: &str, dcol: i64, drow: i64) -> String {
    let mut out = String::with_capacity(text.len() + 8);
    for p in lex(text) {
        match p {
            Piece::Text(t) => out.push_str(t),
            Piece::Cell { col_abs, col, row_abs, row } => {
                let c = if col_abs { col } else { wrap(col as i64 + dcol, MAX_COL) };
                let r = if row_abs { row } else { wrap(row as i64 + drow, MAX_ROW) };
                if col_abs {
                    out.push('$');
                }
                out.push_str(&col_letters(c));
                if row_abs {
                    out.push('$');
                }
                out.push_str(&r.to_string());
            }
            Piece::Cols { a_abs, a, b_abs, b } => {
                let ca = if a_abs { a } else { wrap(a as i64 + dcol, MAX_COL) };
                let cb = if b_abs { b } else { wrap(b as i64 + dcol, MAX_COL) };
                if a_abs {
                    out.push('$');
                }
                out.push_str(&col_letters(ca));
                out.push(':');
                if b_abs {
                    out.push('$');
                }
                out.push_str(&col_letters(cb));
            }
            Piece::Rows { a_abs, a, b_abs, b } => {
                let ra = if a_abs { a } else { wrap(a as i64 + drow, MAX_ROW) };
                let rb = if b_abs { b } else { wrap(b as i64 + drow, MAX_ROW) };
                if a_abs {
                    out.push('$');
                }
                out.push_str(&ra.to_string());
                out.push(':');
                if b_abs {
                    out.push('$');
                }
                out.push_str(&rb.to_string());
            }
        }
    }
    out
}

/// All single-cell references of a formula text: (col, row, col_abs, row_abs).
pub fn scan_refs(text: &str) -> Vec<(u32, u32, bool, bool)> {
    lex(text)
        .into_iter()
        .filter_map(|p| match p {
            Piece::Cell { col_abs, col, row_abs, row } => Some((col, row, col_abs, row_abs)),
            _ => None,
        })
        .collect()
}

/// Oracle self-test (exit 2 on failure): the translator on hand-computed examples.
pub fn self_test() {
    let cases: [(&str, i64, i64, &str); 16] = [
        ("A1+C3", 0, 1, "A2+C4"),
        ("$A1+A$1+$A$1", 2, 3, "$A4+C$1+$A$1"),
        ("SUM(A1:B2)", 1, 1, "SUM(B2:C3)"),
        ("'My Sheet'!A1+Sheet2!B2", 1, 0, "'My Sheet'!B1+Sheet2!C2"),
        ("\"A1\"&A1", 0, 1, "\"A1\"&A2"),
        ("LOG10(A1)", 0, 1, "LOG10(A2)"),
        ("A:A", 1, 0, "B:B"),
        ("$A:B", 1, 0, "$A:C"),
        ("1:1", 0, 2, "3:3"),
        ("SUM($1:2)", 0, 2, "SUM($1:4)"),
        ("Table1[[#This Row],[A1]]+A1", 0, 1, "Table1[[#This Row],[A1]]+A2"),
        ("name1x+A1", 0, 1, "name1x+A2"),
        ("XFE1+XFD1", 0, 1, "XFE1+XFD2"),
        ("'It''s A1'!A1", 0, 1, "'It''s A1'!A2"),
        ("\"a\"\"A1\"\"\"&A1", 0, 1, "\"a\"\"A1\"\"\"&A2"),
        ("1E3+A1*-B2%", 1, 1, "1E3+B2*-C3%"),
    ];
    for (t, dc, dr, exp) in cases {
        let got = translate(t, dc, dr);
        if got != exp {
            eprintln!("HARNESS-ERROR: reference translator self-test: {:?} by ({},{}) gives {:?}, expected {:?}", t, dc, dr, got, exp);
            std::process::exit(2);
        }
    }
    if a1(16384, 1048576) != "XFD1048576" || parse_a1("$AB$12") != Some((28, 12)) || col_letters(703) != "AAA" {
        eprintln!("HARNESS-ERROR: A1 helper self-test");
        std::process::exit(2);
    }
}

#[allow(dead_code)]
fn _unused(_: &Decoded) {}
