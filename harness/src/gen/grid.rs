//! Grid histories (C07, C10): workbook specs with tagged content, abstract operations
//! (raw selectors that are resolved against the current state, so that every precondition
//! holds BY CONSTRUCTION), the resolver, and the application of a resolved operation to
//! the library through its public API.
//!
//! A case stores only raw selectors; `resolve` turns a selector into a concrete operation
//! using an occupancy view (`Occ`) of the sheet it addresses.  Raw value 0 always selects
//! the simplest choice (position 1, count 1, first cell), so shrinking simplifies.
use crate::engine::pick_idx;
use crate::model::grid::*;
use proptest::prelude::*;
use serde::{Deserialize, Serialize};
use umya_spreadsheet::{
    Cell, Comment, ConditionalFormatting, ConditionalFormattingRule, SequenceOfReferences, Spreadsheet, Style,
    Worksheet,
};

pub const SHEET_NAMES: [&str; 3] = ["Sheet1", "Data 2", "S'3"];

// ---------------------------------------------------------------------------------------
// tags <-> library values

pub fn value_text(tag: u32) -> String {
    format!("v{}", tag)
}

pub fn make_style(tag: u32) -> Style {
    let mut s = Style::default();
    if tag > 0 {
        s.set_background_color(format!("FF{:06X}", tag & 0xFF_FFFF));
    }
    s
}

/// Ok(tag) if `style` is exactly the style `make_style(tag)` builds (0 = default style).
pub fn style_tag_of(style: &Style) -> Result<u32, String> {
    if *style == Style::default() {
        return Ok(0);
    }
    if let Some(c) = style.get_background_color() {
        let argb = c.get_argb();
        if argb.len() == 8 && argb.starts_with("FF") {
            if let Ok(t) = u32::from_str_radix(&argb[2..], 16) {
                if t > 0 && *style == make_style(t) {
                    return Ok(t);
                }
            }
        }
    }
    Err(format!("unrecognised style {:?}", style.get_background_color().map(|c| c.get_argb().to_string())))
}

/// Style tag after a save + reload: the reader materialises the workbook defaults (font,
/// borders, ...) into every style, so only the fill colour that carries the tag is read.
pub fn style_tag_lenient(style: &Style) -> Result<u32, String> {
    match style.get_background_color() {
        None => Ok(0),
        Some(c) => {
            let argb = c.get_argb();
            if argb.is_empty() {
                return Ok(0);
            }
            if argb.len() == 8 && argb.starts_with("FF") {
                if let Ok(t) = u32::from_str_radix(&argb[2..], 16) {
                    if t > 0 {
                        return Ok(t);
                    }
                }
            }
            Err(format!("unrecognised fill colour {:?}", argb))
        }
    }
}

pub fn hl_url(tag: u32) -> String {
    format!("https://h.example/{}", tag)
}

pub fn dim_height(tag: u32) -> f64 {
    10.0 + tag as f64 * 0.5
}

pub fn dim_width(tag: u32) -> f64 {
    9.0 + tag as f64 * 0.25
}

// ---------------------------------------------------------------------------------------
// position maps (monotone in the raw value)

const ROW_TAIL: [u32; 6] = [13, 27, 99, 100, 1000, 65536];
const COL_TAIL: [u32; 8] = [9, 26, 27, 28, 52, 702, 703, 704];

pub fn row_of(raw: u16) -> u32 {
    if raw < 55000 {
        1 + (raw as u32 * 12) / 55000
    } else {
        ROW_TAIL[((raw as usize - 55000) * ROW_TAIL.len()) / 10536]
    }
}

pub fn col_of(raw: u16) -> u32 {
    if raw < 55000 {
        1 + (raw as u32 * 8) / 55000
    } else {
        COL_TAIL[((raw as usize - 55000) * COL_TAIL.len()) / 10536]
    }
}

// ---------------------------------------------------------------------------------------
// workbook spec

#[derive(Clone, Debug, Serialize, Deserialize)]
pub struct CellSpec {
    pub r: u16,
    pub c: u16,
    /// 0 = default style, 1..3 = style tag
    pub style: u8,
    pub hl: bool,
}

#[derive(Clone, Debug, Serialize, Deserialize)]
pub struct DimSpec {
    pub idx: u16,
    pub size: u8,
    pub hidden: bool,
}

#[derive(Clone, Debug, Serialize, Deserialize)]
pub struct RectSpec {
    pub r: u16,
    pub c: u16,
    pub h: u8,
    pub w: u8,
}

impl RectSpec {
    pub fn rect(&self) -> Rect {
        let r1 = row_of(self.r);
        let c1 = col_of(self.c);
        Rect::new(r1, c1, r1 + (self.h.max(1) as u32 - 1), c1 + (self.w.max(1) as u32 - 1))
    }
}

#[derive(Clone, Debug, Default, Serialize, Deserialize)]
pub struct SheetSpec {
    pub cells: Vec<CellSpec>,
    pub rows: Vec<DimSpec>,
    pub cols: Vec<DimSpec>,
    pub merges: Vec<RectSpec>,
    pub comments: Vec<(u16, u16)>,
    pub cfs: Vec<Vec<RectSpec>>,
    pub filter: Option<RectSpec>,
    /// content next to the grid limits: 0 none, 1 rows (4 spare), 2 cols (4 spare), 3 both,
    /// 4 a cell in the last row, 5 a cell in the last column, 6 merge+comment+row setting
    /// near the last row, 7 the same near the last column
    pub far: u8,
}

fn cell_spec() -> impl Strategy<Value = CellSpec> {
    (any::<u16>(), any::<u16>(), prop_oneof![3 => Just(0u8), 2 => 1u8..=3], prop::bool::weighted(0.2))
        .prop_map(|(r, c, style, hl)| CellSpec { r, c, style, hl })
}

fn dim_spec() -> impl Strategy<Value = DimSpec> {
    (any::<u16>(), 1u8..=9, prop::bool::weighted(0.25)).prop_map(|(idx, size, hidden)| DimSpec { idx, size, hidden })
}

fn rect_spec(allow_single: bool) -> impl Strategy<Value = RectSpec> {
    (any::<u16>(), any::<u16>(), 1u8..=4, 1u8..=4).prop_map(move |(r, c, h, w)| {
        let (h, w) = if !allow_single && h == 1 && w == 1 { (1, 2) } else { (h, w) };
        RectSpec { r, c, h, w }
    })
}

pub fn sheet_spec(max_cells: usize, annotations: bool) -> BoxedStrategy<SheetSpec> {
    let ann = if annotations { 1usize } else { 0 };
    (
        prop::collection::vec(cell_spec(), 0..=max_cells),
        prop::collection::vec(dim_spec(), 0..=3),
        prop::collection::vec(dim_spec(), 0..=3),
        prop::collection::vec(rect_spec(false), 0..=3 * ann),
        prop::collection::vec((any::<u16>(), any::<u16>()), 0..=3 * ann),
        prop::collection::vec(
            prop_oneof![
                5 => prop::collection::vec(rect_spec(true), 1..=1),
                1 => prop::collection::vec(rect_spec(true), 2..=2),
            ],
            0..=2 * ann,
        ),
        if annotations { prop::option::weighted(0.4, rect_spec(false)).boxed() } else { Just(None).boxed() },
        prop_oneof![14 => Just(0u8), 7 => 1u8..=7],
    )
        .prop_map(|(cells, rows, cols, merges, comments, cfs, filter, far)| SheetSpec {
            cells,
            rows,
            cols,
            merges,
            comments,
            cfs,
            filter,
            far,
        })
        .boxed()
}

/// Running counter for fresh tags (deterministic: a pure function of the case).
#[derive(Default)]
pub struct Tags {
    pub next: u32,
}

impl Tags {
    pub fn fresh(&mut self) -> u32 {
        self.next += 1;
        self.next
    }
}

fn add_cell(ws: &mut Worksheet, m: &mut MSheet, row: u32, col: u32, style: u32, hl: bool, tags: &mut Tags) {
    if m.cells.contains_key(&(row, col)) {
        return;
    }
    let tag = tags.fresh();
    let cell = ws.get_cell_mut((col, row));
    cell.set_value(value_text(tag));
    if style > 0 {
        cell.set_style(make_style(style));
    }
    if hl {
        cell.get_hyperlink_mut().set_url(hl_url(tag));
    }
    m.put_cell(
        row,
        col,
        MCell {
            value: tag,
            style,
            hl: if hl { Hl::Tag(tag) } else { Hl::None },
        },
    );
}

fn add_row_dim(ws: &mut Worksheet, m: &mut MSheet, row: u32, size: u32, hidden: bool) {
    if m.rows.contains_key(&row) {
        return;
    }
    let d = ws.get_row_dimension_mut(&row);
    d.set_height(dim_height(size));
    if hidden {
        d.set_hidden(true);
    }
    m.rows.insert(row, MDim { size, hidden });
    m.touched_rows.insert(row);
}

fn add_col_dim(ws: &mut Worksheet, m: &mut MSheet, col: u32, size: u32, hidden: bool) {
    if m.cols.contains_key(&col) {
        return;
    }
    let d = ws.get_column_dimension_by_number_mut(&col);
    d.set_width(dim_width(size));
    if hidden {
        d.set_hidden(true);
    }
    m.cols.insert(col, MDim { size, hidden });
    m.touched_cols.insert(col);
}

fn add_merge(ws: &mut Worksheet, m: &mut MSheet, rect: Rect) {
    if rect.area() < 2 || !rect.in_grid() {
        return;
    }
    // merged ranges of a valid sheet are pairwise disjoint
    if m.merges.iter().any(|x| matches!(x, MRange::Exact(r) if r.intersects(&rect))) {
        return;
    }
    ws.add_merge_cells(rect.a1());
    m.merges.push(MRange::Exact(rect));
}

fn add_comment(ws: &mut Worksheet, m: &mut MSheet, row: u32, col: u32, tags: &mut Tags) {
    if m.comments.iter().any(|c| c.row == row && c.col == col) {
        return;
    }
    let tag = tags.fresh();
    let mut c = Comment::default();
    c.new_comment((col, row));
    c.set_text_string(format!("c{}", tag));
    c.set_author("verif");
    ws.add_comments(c);
    m.comments.push(MComment { row, col, tag });
}

fn add_cf(ws: &mut Worksheet, m: &mut MSheet, rects: &[Rect], tags: &mut Tags) {
    let rects: Vec<Rect> = rects.iter().copied().filter(|r| r.in_grid()).collect();
    if rects.is_empty() {
        return;
    }
    let tag = tags.fresh();
    let mut seq = SequenceOfReferences::default();
    seq.set_sqref(rects.iter().map(|r| r.a1_short()).collect::<Vec<_>>().join(" "));
    let mut rule = ConditionalFormattingRule::default();
    rule.set_priority(tag as i32);
    let mut cf = ConditionalFormatting::default();
    cf.set_sequence_of_references(seq);
    cf.add_conditional_collection(rule);
    ws.add_conditional_formatting_collection(cf);
    m.cfs.push(MCf {
        tag,
        ranges: rects.into_iter().map(MRange::Exact).collect(),
    });
}

/// Build the library workbook (public API only) and the reference model side by side.
pub fn build_book(specs: &[SheetSpec], tags: &mut Tags) -> (Spreadsheet, MBook) {
    let mut book = umya_spreadsheet::new_file();
    let mut model = MBook::default();
    for (i, spec) in specs.iter().enumerate().take(SHEET_NAMES.len()) {
        let name = SHEET_NAMES[i];
        if i > 0 {
            book.new_sheet(name).unwrap();
        }
        let ws = book.get_sheet_mut(&i).unwrap();
        let mut m = MSheet::new(name);
        for c in &spec.cells {
            add_cell(ws, &mut m, row_of(c.r), col_of(c.c), c.style as u32, c.hl, tags);
        }
        for d in &spec.rows {
            add_row_dim(ws, &mut m, row_of(d.idx), d.size as u32, d.hidden);
        }
        for d in &spec.cols {
            add_col_dim(ws, &mut m, col_of(d.idx), d.size as u32, d.hidden);
        }
        for r in &spec.merges {
            add_merge(ws, &mut m, r.rect());
        }
        for &(r, c) in &spec.comments {
            add_comment(ws, &mut m, row_of(r), col_of(c), tags);
        }
        for cf in &spec.cfs {
            let rects: Vec<Rect> = cf.iter().map(|r| r.rect()).collect();
            add_cf(ws, &mut m, &rects, tags);
        }
        if let Some(f) = &spec.filter {
            let rect = f.rect();
            ws.set_auto_filter(rect.a1());
            m.filter = Some(MRange::Exact(rect));
        }
        match spec.far {
            1 | 3 => {
                add_cell(ws, &mut m, MAX_ROW - 6, 2, 1, false, tags);
                add_cell(ws, &mut m, MAX_ROW - 4, 3, 0, true, tags);
            }
            _ => {}
        }
        match spec.far {
            2 | 3 => {
                add_cell(ws, &mut m, 2, MAX_COL - 6, 2, false, tags);
                add_cell(ws, &mut m, 3, MAX_COL - 4, 0, false, tags);
            }
            4 => add_cell(ws, &mut m, MAX_ROW, 1, 0, false, tags),
            5 => add_cell(ws, &mut m, 1, MAX_COL, 0, false, tags),
            6 => {
                add_merge(ws, &mut m, Rect::new(MAX_ROW - 8, 2, MAX_ROW - 6, 3));
                add_comment(ws, &mut m, MAX_ROW - 5, 2, tags);
                add_row_dim(ws, &mut m, MAX_ROW - 5, 4, false);
                add_cell(ws, &mut m, MAX_ROW - 5, 4, 0, false, tags);
            }
            7 => {
                add_merge(ws, &mut m, Rect::new(2, MAX_COL - 8, 3, MAX_COL - 6));
                add_comment(ws, &mut m, 2, MAX_COL - 5, tags);
                add_col_dim(ws, &mut m, MAX_COL - 5, 4, false);
                add_cell(ws, &mut m, 4, MAX_COL - 5, 0, false, tags);
            }
            _ => {}
        }
        model.sheets.push(m);
    }
    (book, model)
}

// ---------------------------------------------------------------------------------------
// abstract and concrete operations

#[derive(Clone, Copy, Debug, PartialEq, Eq, Serialize, Deserialize)]
pub enum AKind {
    InsertRows,
    InsertCols,
    RemoveRows,
    RemoveCols,
    Move,
    Copy,
    SetValue,
    RemoveCell,
    // C10 only
    GetCellMut,
    SetCell,
    SetStyle,
    StyleRange,
    StyleRows,
    StyleCols,
    Cleanup,
    CopyRowStyling,
    CopyColStyling,
    Save,
}

#[derive(Clone, Debug, Serialize, Deserialize)]
pub struct AOp {
    pub kind: AKind,
    /// which sheet (resolved with pick_idx over the sheet list)
    pub sheet: u16,
    /// workbook-level call by sheet name (true) or sheet-level call (false)
    pub book_level: bool,
    /// columns addressed by letter ("B") instead of by index
    pub by_letter: bool,
    pub a: u16,
    pub b: u16,
    pub c: u16,
    pub d: u16,
    pub e: u16,
}

pub fn aop(kinds: Vec<(u32, AKind)>) -> BoxedStrategy<AOp> {
    let kind = prop::strategy::Union::new_weighted(kinds.into_iter().map(|(w, k)| (w, Just(k).boxed())).collect::<Vec<_>>());
    (
        kind,
        any::<u16>(),
        any::<bool>(),
        any::<bool>(),
        any::<u16>(),
        any::<u16>(),
        any::<u16>(),
        any::<u16>(),
        any::<u16>(),
    )
        .prop_map(|(kind, sheet, book_level, by_letter, a, b, c, d, e)| AOp {
            kind,
            sheet,
            book_level,
            by_letter,
            a,
            b,
            c,
            d,
            e,
        })
        .boxed()
}

/// How an insert/remove is spelled at the call site.
#[derive(Clone, Copy, Debug, Default, PartialEq, Eq, Serialize, Deserialize)]
pub struct CallForm {
    /// column letter case for the by-letter entry points: 0 "AB", 1 "ab", 2 "aB"
    pub letter_case: u8,
    /// sheet-level `*_from_other_sheet(other_name, ..)` variant (C10 only): shifts this
    /// sheet physically exactly like the plain sheet-level call
    pub from_other: bool,
}

/// What a `set_cell` call puts into the cell (C10).
#[derive(Clone, Copy, Debug, PartialEq, Eq, Serialize, Deserialize)]
pub enum CellContent {
    /// value "v<tag>" (+ optional fill style)
    Value,
    /// nothing at all (a bare cell, like `get_cell_mut` leaves behind)
    Blank,
    /// only a hyperlink: no value, no visible style
    HyperlinkOnly,
    /// only a bold font: a style, but nothing visible in an empty cell
    FontOnly,
    /// only a formula ("1+1", no references), no cached value
    FormulaOnly,
}

/// Column letters in the requested case.
pub fn col_letters(col: u32, letter_case: u8) -> String {
    let up = col_name(col);
    match letter_case {
        1 => up.to_lowercase(),
        2 => up
            .chars()
            .enumerate()
            .map(|(i, ch)| if i % 2 == 0 { ch.to_ascii_lowercase() } else { ch })
            .collect(),
        _ => up,
    }
}

pub const OTHER_SHEET_NAME: &str = "Elsewhere";

#[derive(Clone, Debug, PartialEq, Serialize, Deserialize)]
pub enum COp {
    Insert { sheet: usize, axis: Axis, book_level: bool, by_letter: bool, p: u32, n: u32, call: CallForm },
    Remove { sheet: usize, axis: Axis, book_level: bool, by_letter: bool, p: u32, n: u32, call: CallForm },
    Move { sheet: usize, rect: Rect, dr: i32, dc: i32 },
    Copy { sheet: usize, rect: Rect, dr: i32, dc: i32 },
    SetValue { sheet: usize, row: u32, col: u32, tag: u32 },
    RemoveCell { sheet: usize, row: u32, col: u32 },
    GetCellMut { sheet: usize, row: u32, col: u32 },
    SetCell { sheet: usize, row: u32, col: u32, tag: u32, style: u32, content: CellContent },
    SetStyle { sheet: usize, row: u32, col: u32, style: u32 },
    StyleRange { sheet: usize, rect: Rect, style: u32 },
    StyleRows { sheet: usize, r1: u32, r2: u32, style: u32 },
    StyleCols { sheet: usize, c1: u32, c2: u32, style: u32 },
    Cleanup { sheet: usize },
    CopyRowStyling { sheet: usize, src: u32, dst: u32, cols: Option<(u32, u32)> },
    CopyColStyling { sheet: usize, src: u32, dst: u32, rows: Option<(u32, u32)> },
    Save,
}

impl COp {
    pub fn kind_name(&self) -> String {
        match self {
            COp::Insert { axis, .. } => format!("insert-{}", axis.name()),
            COp::Remove { axis, .. } => format!("remove-{}", axis.name()),
            COp::Move { .. } => "move".into(),
            COp::Copy { .. } => "copy".into(),
            COp::SetValue { .. } => "set-value".into(),
            COp::RemoveCell { .. } => "remove-cell".into(),
            COp::GetCellMut { .. } => "get-cell-mut".into(),
            COp::SetCell { .. } => "set-cell".into(),
            COp::SetStyle { .. } => "set-style".into(),
            COp::StyleRange { .. } => "style-range".into(),
            COp::StyleRows { .. } => "style-rows".into(),
            COp::StyleCols { .. } => "style-cols".into(),
            COp::Cleanup { .. } => "cleanup".into(),
            COp::CopyRowStyling { .. } => "copy-row-styling".into(),
            COp::CopyColStyling { .. } => "copy-col-styling".into(),
            COp::Save => "save".into(),
        }
    }
}

/// Occupancy view of one sheet: everything the resolver needs to aim at objects and to
/// keep preconditions.
#[derive(Clone, Debug, Default)]
pub struct Occ {
    /// (row, col), sorted
    pub cells: Vec<(u32, u32)>,
    pub iv_row: Vec<(u32, u32)>,
    pub iv_col: Vec<(u32, u32)>,
    /// exactly known range objects (for the partial-overlap stratification)
    pub rects: Vec<Rect>,
    /// upper bounds of ranges whose position is no longer determined
    pub loose_max: Vec<(u32, u32)>,
}

impl Occ {
    pub fn from_model(m: &MSheet) -> Occ {
        let mut o = Occ::default();
        for (&(r, c), _) in &m.cells {
            o.cells.push((r, c));
            o.iv_row.push((r, r));
            o.iv_col.push((c, c));
        }
        for (&r, _) in &m.rows {
            o.iv_row.push((r, r));
        }
        for &r in &m.touched_rows {
            o.iv_row.push((r, r));
        }
        for (&c, _) in &m.cols {
            o.iv_col.push((c, c));
        }
        for &c in &m.touched_cols {
            o.iv_col.push((c, c));
        }
        for c in &m.comments {
            o.iv_row.push((c.row, c.row));
            o.iv_col.push((c.col, c.col));
        }
        for r in m.exact_rects() {
            o.iv_row.push((r.r1, r.r2));
            o.iv_col.push((r.c1, r.c2));
            o.rects.push(r);
        }
        for l in m.all_ranges() {
            if let MRange::Loose { max_r, max_c } = l {
                o.loose_max.push((*max_r, *max_c));
            }
        }
        o.normalise();
        o
    }

    /// Occupancy of a library sheet through public getters (C10 resolves against the
    /// library's own state: its statement is about the library's internal agreement).
    pub fn from_sheet(ws: &Worksheet) -> Occ {
        let mut o = Occ::default();
        for (&(r, c), _) in ws.get_collection_to_hashmap() {
            o.cells.push((r, c));
            o.iv_row.push((r, r));
            o.iv_col.push((c, c));
        }
        for r in ws.get_row_dimensions() {
            let n = *r.get_row_num();
            o.iv_row.push((n, n));
        }
        for c in ws.get_column_dimensions() {
            let n = *c.get_col_num();
            o.iv_col.push((n, n));
        }
        o.normalise();
        o
    }

    fn normalise(&mut self) {
        self.cells.sort();
        self.cells.dedup();
        self.iv_row.sort();
        self.iv_row.dedup();
        self.iv_col.sort();
        self.iv_col.dedup();
    }

    pub fn intervals(&self, axis: Axis) -> &Vec<(u32, u32)> {
        match axis {
            Axis::Row => &self.iv_row,
            Axis::Col => &self.iv_col,
        }
    }

    pub fn max_used_from(&self, axis: Axis, from: u32) -> u32 {
        let mut m = 0;
        for &(_, e) in self.intervals(axis) {
            if e >= from && e > m {
                m = e;
            }
        }
        for &(mr, mc) in &self.loose_max {
            let e = if axis == Axis::Row { mr } else { mc };
            if e >= from && e > m {
                m = e;
            }
        }
        m
    }

    pub fn partial_overlaps(&self, axis: Axis, p: u32, n: u32) -> usize {
        self.rects
            .iter()
            .filter(|r| {
                let (s, e) = r.span(axis);
                band_rel(s, e, p, n) == BandRel::Partial
            })
            .count()
    }
}

fn pos_candidates(occ: &Occ, axis: Axis) -> Vec<u32> {
    let lim = axis.limit();
    let mut v: Vec<u32> = vec![1, 2, 3, 5, 8, 12];
    for &(s, e) in occ.intervals(axis) {
        v.extend([s.saturating_sub(1), s, s + 1, e, e.saturating_add(1)]);
    }
    v.extend([lim - 3, lim - 1, lim]);
    v.retain(|&x| x >= 1 && x <= lim);
    v.sort();
    v.dedup();
    v
}

pub enum Resolved {
    Op(COp),
    Skip(&'static str),
}

pub struct ResolveCtx<'a> {
    pub occ: &'a Occ,
    pub sheet: usize,
    /// allow removal bands that partly overlap a range object (their own stratum)
    pub allow_partial: bool,
    pub tags: &'a mut Tags,
    /// number of times a choice was steered away from a partial overlap
    pub steered: u32,
    /// bound for rows/cols in the C10 bulk operations
    pub bulk_limit: u32,
    /// C10: a quarter of the sheet-level inserts/removes go through `*_from_other_sheet`
    pub from_other_variants: bool,
}

fn call_form(op: &AOp, cx: &ResolveCtx, axis: Axis) -> (bool, CallForm) {
    let from_other = cx.from_other_variants && op.c % 4 == 1;
    let by_letter = op.by_letter && axis == Axis::Col;
    (
        op.book_level && !from_other,
        CallForm {
            letter_case: if by_letter { (op.d % 3) as u8 } else { 0 },
            from_other,
        },
    )
}

fn clip(x: i64, lo: i64, hi: i64) -> i64 {
    x.max(lo).min(hi)
}

fn pick_cell(occ: &Occ, raw: u16) -> Option<(u32, u32)> {
    if occ.cells.is_empty() {
        None
    } else {
        Some(occ.cells[pick_idx(raw, occ.cells.len())])
    }
}

fn pick_pos(op: &AOp, occ: &Occ, existing_below: u16, neighbour_below: u16) -> (u32, u32) {
    if op.a < existing_below {
        if let Some(p) = pick_cell(occ, op.b) {
            return p;
        }
    } else if op.a < neighbour_below {
        if let Some((r, c)) = pick_cell(occ, op.b) {
            let (dr, dc) = [(0i64, 1i64), (1, 0), (0, -1), (-1, 0)][(op.c % 4) as usize];
            return (
                clip(r as i64 + dr, 1, MAX_ROW as i64) as u32,
                clip(c as i64 + dc, 1, MAX_COL as i64) as u32,
            );
        }
    }
    (row_of(op.b), col_of(op.c))
}

pub fn resolve(op: &AOp, cx: &mut ResolveCtx) -> Resolved {
    let occ = cx.occ;
    let sheet = cx.sheet;
    match op.kind {
        AKind::InsertRows | AKind::InsertCols => {
            let axis = if op.kind == AKind::InsertRows { Axis::Row } else { Axis::Col };
            let lim = axis.limit();
            let cands = pos_candidates(occ, axis);
            let p = cands[pick_idx(op.a, cands.len())];
            let used = occ.max_used_from(axis, p);
            // precondition: nothing is pushed past the grid
            let cap = if used == 0 { lim - p + 1 } else { lim - used };
            if cap == 0 {
                return Resolved::Skip("insert-would-leave-grid");
            }
            let mut ns: Vec<u32> = vec![1, 2, 3, 4, 7, 16, 100];
            if cap <= 64 {
                ns.push(cap);
            }
            ns.retain(|&n| n <= cap);
            ns.sort();
            ns.dedup();
            let n = ns[pick_idx(op.b, ns.len())];
            let (book_level, call) = call_form(op, cx, axis);
            Resolved::Op(COp::Insert {
                sheet,
                axis,
                book_level,
                by_letter: op.by_letter && axis == Axis::Col,
                p,
                n,
                call,
            })
        }
        AKind::RemoveRows | AKind::RemoveCols => {
            let axis = if op.kind == AKind::RemoveRows { Axis::Row } else { Axis::Col };
            let lim = axis.limit();
            let cands = pos_candidates(occ, axis);
            let p = cands[pick_idx(op.a, cands.len())];
            let cap = lim - p + 1;
            let mut ns: Vec<u32> = vec![1, 2, 3, 4, 7];
            for &(s, e) in occ.intervals(axis) {
                if s <= p && p <= e {
                    ns.extend([e - p + 1, e - p, e - p + 2]);
                }
                if s > p && s - p <= 20 {
                    // up to just before / exactly over / partly into the next object
                    ns.extend([s - p, e - p + 1, s - p + 1]);
                }
            }
            ns.retain(|&n| n >= 1 && n <= cap);
            ns.sort();
            ns.dedup();
            let first = pick_idx(op.b, ns.len());
            let mut n = ns[first];
            if !cx.allow_partial && occ.partial_overlaps(axis, p, n) > 0 {
                cx.steered += 1;
                match ns.iter().copied().find(|&m| occ.partial_overlaps(axis, p, m) == 0) {
                    Some(m) => n = m,
                    None => return Resolved::Skip("remove-only-partial-bands-here"),
                }
            }
            let (book_level, call) = call_form(op, cx, axis);
            Resolved::Op(COp::Remove {
                sheet,
                axis,
                book_level,
                by_letter: op.by_letter && axis == Axis::Col,
                p,
                n,
                call,
            })
        }
        AKind::Move | AKind::Copy => {
            let h = 1 + pick_idx(op.c, 4) as u32;
            let w = 1 + pick_idx(op.d, 4) as u32;
            let mut rect = match (op.a < 52000, pick_cell(occ, op.b)) {
                (true, Some((r, c))) => {
                    if op.a & 1 == 0 {
                        Rect::new(r, c, r.saturating_add(h - 1), c.saturating_add(w - 1))
                    } else {
                        Rect::new(r.saturating_sub(h - 1).max(1), c.saturating_sub(w - 1).max(1), r, c)
                    }
                }
                _ => {
                    let (r, c) = (row_of(op.b), col_of(op.a));
                    Rect::new(r, c, r + h - 1, c + w - 1)
                }
            };
            rect.r2 = rect.r2.min(MAX_ROW);
            rect.c2 = rect.c2.min(MAX_COL);
            let (h, w) = ((rect.r2 - rect.r1 + 1) as i64, (rect.c2 - rect.c1 + 1) as i64);
            let lo_r = 1 - rect.r1 as i64;
            let hi_r = MAX_ROW as i64 - rect.r2 as i64;
            let lo_c = 1 - rect.c1 as i64;
            let hi_c = MAX_COL as i64 - rect.c2 as i64;
            let drs: Vec<i64> = vec![0, 1, -1, h, -h, 2, -2, 5, 12, lo_r, hi_r];
            let dcs: Vec<i64> = vec![0, 1, -1, w, -w, 2, -2, 5, lo_c, hi_c];
            let i = pick_idx(op.e, drs.len() * dcs.len());
            // destination inside the grid by construction (the code documents a panic otherwise)
            let dr = clip(drs[i / dcs.len()], lo_r, hi_r) as i32;
            let dc = clip(dcs[i % dcs.len()], lo_c, hi_c) as i32;
            if op.kind == AKind::Move {
                Resolved::Op(COp::Move { sheet, rect, dr, dc })
            } else {
                Resolved::Op(COp::Copy { sheet, rect, dr, dc })
            }
        }
        AKind::SetValue => {
            let (row, col) = pick_pos(op, occ, 16000, 32000);
            Resolved::Op(COp::SetValue {
                sheet,
                row,
                col,
                tag: cx.tags.fresh(),
            })
        }
        AKind::RemoveCell => {
            let (row, col) = pick_pos(op, occ, 45000, 52000);
            Resolved::Op(COp::RemoveCell { sheet, row, col })
        }
        AKind::GetCellMut => {
            let (row, col) = pick_pos(op, occ, 16000, 40000);
            Resolved::Op(COp::GetCellMut { sheet, row, col })
        }
        AKind::SetCell => {
            let content = match op.d % 8 {
                0 => CellContent::Blank,
                1 | 2 => CellContent::HyperlinkOnly,
                3 => CellContent::FontOnly,
                4 => CellContent::FormulaOnly,
                _ => CellContent::Value,
            };
            let (row, col) = if op.a >= 48000 {
                // a trailing position: below everything the sheet holds (what `cleanup`
                // looks at first), in the column of an existing cell
                let below = occ.max_used_from(Axis::Row, 1);
                let row = (below as u64 + 1 + (op.a % 3) as u64).min(MAX_ROW as u64) as u32;
                let col = pick_cell(occ, op.b).map(|p| p.1).unwrap_or_else(|| col_of(op.c));
                (row, col)
            } else {
                pick_pos(op, occ, 16000, 40000)
            };
            Resolved::Op(COp::SetCell {
                sheet,
                row,
                col,
                tag: cx.tags.fresh(),
                style: if content == CellContent::Value { (op.e % 4) as u32 } else { 0 },
                content,
            })
        }
        AKind::SetStyle => {
            let (row, col) = pick_pos(op, occ, 16000, 40000);
            Resolved::Op(COp::SetStyle {
                sheet,
                row,
                col,
                style: (op.e % 4) as u32,
            })
        }
        AKind::StyleRange => {
            let (row, col) = pick_pos(op, occ, 30000, 45000);
            let h = 1 + pick_idx(op.d, 4) as u32;
            let w = 1 + pick_idx(op.e, 4) as u32;
            let rect = Rect::new(row, col, (row + h - 1).min(MAX_ROW), (col + w - 1).min(MAX_COL));
            Resolved::Op(COp::StyleRange {
                sheet,
                rect,
                style: 1 + (op.a % 3) as u32,
            })
        }
        AKind::StyleRows => {
            let (row, _) = pick_pos(op, occ, 30000, 45000);
            // r1 < r2 always: a single-row range ("3:3") indexes past the coordinate list in
            // set_style_by_range (out of C10's scope, see notes)
            let r1 = row.min(MAX_ROW - 4);
            let r2 = r1 + 1 + pick_idx(op.d, 3) as u32;
            Resolved::Op(COp::StyleRows {
                sheet,
                r1,
                r2,
                style: 1 + (op.e % 3) as u32,
            })
        }
        AKind::StyleCols => {
            let (_, col) = pick_pos(op, occ, 30000, 45000);
            let c1 = col.min(MAX_COL - 4);
            let c2 = c1 + 1 + pick_idx(op.d, 3) as u32;
            Resolved::Op(COp::StyleCols {
                sheet,
                c1,
                c2,
                style: 1 + (op.e % 3) as u32,
            })
        }
        AKind::Cleanup => Resolved::Op(COp::Cleanup { sheet }),
        AKind::CopyRowStyling => {
            let (src, _) = pick_pos(op, occ, 40000, 50000);
            let dst = clip(src as i64 + [1i64, -1, 2, 0, 5][(op.d % 5) as usize], 1, MAX_ROW as i64) as u32;
            let hi = occ.max_used_from(Axis::Col, 1);
            // None = "1..=highest column": only while that stays small (the call touches
            // every column in between)
            let cols = if op.e % 2 == 0 && hi <= cx.bulk_limit {
                None
            } else {
                let c1 = col_of(op.e);
                Some((c1, (c1 + (op.d % 4) as u32).min(MAX_COL)))
            };
            Resolved::Op(COp::CopyRowStyling { sheet, src, dst, cols })
        }
        AKind::CopyColStyling => {
            let (_, src) = pick_pos(op, occ, 40000, 50000);
            let dst = clip(src as i64 + [1i64, -1, 2, 0, 5][(op.d % 5) as usize], 1, MAX_COL as i64) as u32;
            let hi = occ.max_used_from(Axis::Row, 1);
            let rows = if op.e % 2 == 0 && hi <= cx.bulk_limit {
                None
            } else {
                let r1 = row_of(op.e);
                Some((r1, (r1 + (op.d % 4) as u32).min(MAX_ROW)))
            };
            Resolved::Op(COp::CopyColStyling { sheet, src, dst, rows })
        }
        AKind::Save => Resolved::Op(COp::Save),
    }
}

// ---------------------------------------------------------------------------------------
// applying a concrete operation to the library (public API only)

pub fn apply_lib(book: &mut Spreadsheet, op: &COp) {
    match op {
        COp::Insert { sheet, axis, book_level, by_letter, p, n, call } => {
            let name = book.get_sheet_collection_no_check()[*sheet].get_name().to_string();
            let letters = col_letters(*p, call.letter_case);
            if call.from_other {
                let ws = book.get_sheet_mut(sheet).unwrap();
                match (axis, by_letter) {
                    (Axis::Row, _) => ws.insert_new_row_from_other_sheet(OTHER_SHEET_NAME, p, n),
                    (Axis::Col, true) => ws.insert_new_column_from_other_sheet(OTHER_SHEET_NAME, &letters, n),
                    (Axis::Col, false) => ws.insert_new_column_by_index_from_other_sheet(OTHER_SHEET_NAME, p, n),
                }
                return;
            }
            match (axis, book_level, by_letter) {
                (Axis::Row, true, _) => book.insert_new_row(&name, p, n),
                (Axis::Row, false, _) => book.get_sheet_mut(sheet).unwrap().insert_new_row(p, n),
                (Axis::Col, true, true) => book.insert_new_column(&name, &letters, n),
                (Axis::Col, true, false) => book.insert_new_column_by_index(&name, p, n),
                (Axis::Col, false, true) => book.get_sheet_mut(sheet).unwrap().insert_new_column(&letters, n),
                (Axis::Col, false, false) => book.get_sheet_mut(sheet).unwrap().insert_new_column_by_index(p, n),
            }
        }
        COp::Remove { sheet, axis, book_level, by_letter, p, n, call } => {
            let name = book.get_sheet_collection_no_check()[*sheet].get_name().to_string();
            let letters = col_letters(*p, call.letter_case);
            if call.from_other {
                let ws = book.get_sheet_mut(sheet).unwrap();
                match (axis, by_letter) {
                    (Axis::Row, _) => ws.remove_row_from_other_sheet(OTHER_SHEET_NAME, p, n),
                    (Axis::Col, true) => ws.remove_column_from_other_sheet(OTHER_SHEET_NAME, &letters, n),
                    (Axis::Col, false) => ws.remove_column_by_index_from_other_sheet(OTHER_SHEET_NAME, p, n),
                }
                return;
            }
            match (axis, book_level, by_letter) {
                (Axis::Row, true, _) => book.remove_row(&name, p, n),
                (Axis::Row, false, _) => book.get_sheet_mut(sheet).unwrap().remove_row(p, n),
                (Axis::Col, true, true) => book.remove_column(&name, &letters, n),
                (Axis::Col, true, false) => book.remove_column_by_index(&name, p, n),
                (Axis::Col, false, true) => book.get_sheet_mut(sheet).unwrap().remove_column(&letters, n),
                (Axis::Col, false, false) => book.get_sheet_mut(sheet).unwrap().remove_column_by_index(p, n),
            }
        }
        COp::Move { sheet, rect, dr, dc } => {
            book.get_sheet_mut(sheet).unwrap().move_range(&rect.a1(), dr, dc);
        }
        COp::Copy { sheet, rect, dr, dc } => {
            book.get_sheet_mut(sheet).unwrap().copy_range(&rect.a1(), dr, dc);
        }
        COp::SetValue { sheet, row, col, tag } => {
            book.get_sheet_mut(sheet).unwrap().get_cell_mut((*col, *row)).set_value(value_text(*tag));
        }
        COp::RemoveCell { sheet, row, col } => {
            book.get_sheet_mut(sheet).unwrap().remove_cell((*col, *row));
        }
        COp::GetCellMut { sheet, row, col } => {
            let _ = book.get_sheet_mut(sheet).unwrap().get_cell_mut((*col, *row));
        }
        COp::SetCell { sheet, row, col, tag, style, content } => {
            let mut cell = Cell::default();
            cell.get_coordinate_mut().set_col_num(*col).set_row_num(*row);
            match content {
                CellContent::Value => {
                    cell.set_value(value_text(*tag));
                }
                CellContent::Blank => {}
                CellContent::HyperlinkOnly => {
                    cell.get_hyperlink_mut().set_url(hl_url(*tag));
                }
                CellContent::FontOnly => {
                    cell.get_style_mut().get_font_mut().set_bold(true);
                }
                CellContent::FormulaOnly => {
                    cell.set_formula("1+1");
                }
            }
            if *style > 0 {
                cell.set_style(make_style(*style));
            }
            book.get_sheet_mut(sheet).unwrap().set_cell(cell);
        }
        COp::SetStyle { sheet, row, col, style } => {
            book.get_sheet_mut(sheet).unwrap().set_style((*col, *row), make_style(*style));
        }
        COp::StyleRange { sheet, rect, style } => {
            book.get_sheet_mut(sheet).unwrap().set_style_by_range(&rect.a1(), make_style(*style));
        }
        COp::StyleRows { sheet, r1, r2, style } => {
            book.get_sheet_mut(sheet)
                .unwrap()
                .set_style_by_range(&format!("{}:{}", r1, r2), make_style(*style));
        }
        COp::StyleCols { sheet, c1, c2, style } => {
            book.get_sheet_mut(sheet)
                .unwrap()
                .set_style_by_range(&format!("{}:{}", col_name(*c1), col_name(*c2)), make_style(*style));
        }
        COp::Cleanup { sheet } => book.get_sheet_mut(sheet).unwrap().cleanup(),
        COp::CopyRowStyling { sheet, src, dst, cols } => {
            let ws = book.get_sheet_mut(sheet).unwrap();
            match cols {
                None => ws.copy_row_styling(src, dst, None, None),
                Some((a, b)) => ws.copy_row_styling(src, dst, Some(a), Some(b)),
            }
        }
        COp::CopyColStyling { sheet, src, dst, rows } => {
            let ws = book.get_sheet_mut(sheet).unwrap();
            match rows {
                None => ws.copy_col_styling(src, dst, None, None),
                Some((a, b)) => ws.copy_col_styling(src, dst, Some(a), Some(b)),
            }
        }
        COp::Save => {}
    }
}

#[cfg(test)]
mod tests {
    use super::*;

    #[test]
    fn position_maps_are_monotone_and_in_grid() {
        let mut pr = 0;
        let mut pc = 0;
        for raw in 0..=u16::MAX {
            let (r, c) = (row_of(raw), col_of(raw));
            assert!(r >= pr && c >= pc);
            assert!(r >= 1 && r <= MAX_ROW && c >= 1 && c <= MAX_COL);
            pr = r;
            pc = c;
        }
        assert_eq!(row_of(0), 1);
        assert_eq!(row_of(u16::MAX), 65536);
        assert_eq!(col_of(u16::MAX), 704);
    }

    #[test]
    fn style_tags_round_trip() {
        for t in 0..5 {
            assert_eq!(style_tag_of(&make_style(t)), Ok(t));
        }
    }
}
