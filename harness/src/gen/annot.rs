//! Annotation workbook spec (DESIGN 3.1, sub-grammar for C06): sheet list + per-sheet
//! annotations, a builder that applies the spec through the public API only, and strategies.
//!
//! Everything here is plain data: the spec fully determines the workbook that is built.
use crate::engine::{pick_idx, Tier};
use crate::gen::text::*;
use crate::gen::wb::{col_pos, row_pos, Num};
use proptest::prelude::*;
use serde::{Deserialize, Serialize};
use std::collections::BTreeSet;
use umya_spreadsheet::*;

// ---------------------------------------------------------------------------------------
// spec

#[derive(Debug, Clone, Serialize, Deserialize, PartialEq)]
pub struct AnnotWb {
    pub sheets: Vec<AnnotSheet>,
    /// index into the list of sheets that are left when the workbook is saved
    pub active_tab: u32,
    /// call `set_active_sheet` even when the index is 0
    pub set_active: bool,
    /// names kept in the workbook's own list (always workbook scope)
    pub wb_names: Vec<NameSpec>,
    pub wb_protection: Option<WbProtSpec>,
}

#[derive(Debug, Clone, Serialize, Deserialize, PartialEq)]
pub struct AnnotSheet {
    pub name: String,
    /// 0 visible (not set), 1 visible (set explicitly), 2 hidden, 3 veryHidden
    pub state: u8,
    /// the sheet is built like the others and removed (`Spreadsheet::remove_sheet`) before saving
    pub removed_before_save: bool,
    pub merges: Vec<RectSpec>,
    pub names: Vec<NameSpec>,
    pub links: Vec<LinkSpec>,
    pub comments: Vec<CommentSpec>,
    pub validations: Vec<DvSpec>,
    pub cond_formats: Vec<CfSpec>,
    pub auto_filter: Option<RectSpec>,
    pub tab_color: Option<ColorSpec>,
    pub view: Option<ViewSpec>,
    /// `Worksheet::set_active_cell` (a field of its own, not the selection of a sheet view)
    pub ws_active_cell: Option<(u32, u32)>,
    pub page: PageSpec,
    pub header: Option<String>,
    pub footer: Option<String>,
    pub protection: Option<SheetProtSpec>,
    /// a table (not an item of the statement, never compared): its part takes a relationship
    /// id of the sheet like hyperlinks, printer settings and comments do
    #[serde(default)]
    pub table: Option<RectSpec>,
}

/// c1 <= c2, r1 <= r2 (1-based, inclusive)
#[derive(Debug, Clone, Copy, Serialize, Deserialize, PartialEq, Eq, PartialOrd, Ord)]
pub struct RectSpec {
    pub c1: u32,
    pub r1: u32,
    pub c2: u32,
    pub r2: u32,
}

impl RectSpec {
    pub fn a1(&self) -> String {
        let a = format!("{}{}", col_name(self.c1), self.r1);
        if self.c1 == self.c2 && self.r1 == self.r2 {
            a
        } else {
            format!("{}:{}{}", a, col_name(self.c2), self.r2)
        }
    }
    /// always `A1:B2` form, also for one cell
    pub fn a1_range(&self) -> String {
        format!("{}{}:{}{}", col_name(self.c1), self.r1, col_name(self.c2), self.r2)
    }
    pub fn abs(&self) -> String {
        let a = format!("${}${}", col_name(self.c1), self.r1);
        if self.c1 == self.c2 && self.r1 == self.r2 {
            a
        } else {
            format!("{}:${}${}", a, col_name(self.c2), self.r2)
        }
    }
    pub fn overlaps(&self, o: &RectSpec) -> bool {
        self.c1 <= o.c2 && o.c1 <= self.c2 && self.r1 <= o.r2 && o.r1 <= self.r2
    }
}

pub fn col_name(mut c: u32) -> String {
    let mut s = Vec::new();
    while c > 0 {
        let r = (c - 1) % 26;
        s.push((b'A' + r as u8) as char);
        c = (c - 1) / 26;
    }
    s.iter().rev().collect()
}

#[derive(Debug, Clone, Serialize, Deserialize, PartialEq)]
pub struct NameSpec {
    pub name: String,
    /// sheet scope (`localSheetId` = index of the owning sheet when it is built); only for
    /// names kept in a sheet's list
    pub local: bool,
    pub hidden: bool,
    pub text: NameText,
}

#[derive(Debug, Clone, Serialize, Deserialize, PartialEq)]
pub enum NameText {
    /// one or more areas; `via_add_address`: the first area goes through
    /// `Worksheet::add_defined_name`, the others through `DefinedName::add_address`
    /// (otherwise the whole comma-joined text goes through `add_defined_name`)
    Areas { areas: Vec<AreaSpec>, via_add_address: bool },
    /// constant or formula text without a top-level comma and without a top-level `"`
    /// (`{S}` is replaced by the quoted name of sheet `sheet`)
    Formula { template: String, sheet: u16 },
}

#[derive(Debug, Clone, Serialize, Deserialize, PartialEq)]
pub struct AreaSpec {
    /// raw index, mapped monotonically onto the sheets of the spec
    pub sheet: u16,
    pub rect: RectSpec,
    pub absolute: bool,
}

#[derive(Debug, Clone, Serialize, Deserialize, PartialEq)]
pub struct LinkSpec {
    pub col: u32,
    pub row: u32,
    /// false: external URL, true: location inside the workbook
    pub internal: bool,
    pub target: String,
    pub tooltip: Option<String>,
}

#[derive(Debug, Clone, Serialize, Deserialize, PartialEq)]
pub struct CommentSpec {
    pub col: u32,
    pub row: u32,
    pub author: String,
    /// run texts (a run may be empty)
    pub runs: Vec<String>,
    /// false: `Comment::default()` + coordinate only (no `new_comment()`, hence no VML shape data)
    pub with_shape: bool,
}

#[derive(Debug, Clone, Serialize, Deserialize, PartialEq)]
pub struct DvSpec {
    pub sqref: Vec<RectSpec>,
    /// 0 none set, 1.. index+1 into DV_TYPES
    pub kind: u8,
    /// 0 none set, 1.. index+1 into DV_OPS
    pub operator: u8,
    pub allow_blank: Option<bool>,
    pub show_input: Option<bool>,
    pub show_error: Option<bool>,
    pub prompt_title: Option<String>,
    pub prompt: Option<String>,
    pub error_title: Option<String>,
    pub error: Option<String>,
    pub formula1: Option<String>,
    pub formula2: Option<String>,
}

#[derive(Debug, Clone, Serialize, Deserialize, PartialEq)]
pub struct CfSpec {
    pub sqref: Vec<RectSpec>,
    pub rules: Vec<CfRuleSpec>,
}

#[derive(Debug, Clone, Serialize, Deserialize, PartialEq)]
pub struct CfRuleSpec {
    /// index into CF_TYPES
    pub kind: u8,
    /// 0 none, else index+1 into CF_OPS
    pub operator: u8,
    pub priority: i32,
    pub formula: Option<String>,
    pub dxf: Option<DxfSpec>,
    /// `set_text` (containsText & co)
    pub text: Option<String>,
    pub percent: Option<bool>,
    pub bottom: Option<bool>,
    pub rank: Option<u32>,
    pub stop_if_true: Option<bool>,
    pub std_dev: Option<i32>,
    pub above_average: Option<bool>,
    pub equal_average: Option<bool>,
    /// 0 none, else index+1 into TIME_PERIODS
    pub time_period: u8,
    /// 0 none, 1 colour scale, 2 data bar, 3 icon set
    pub visual: u8,
    pub cfvo: Vec<(u8, Option<String>)>,
    pub colors: Vec<ColorSpec>,
}

#[derive(Debug, Clone, Serialize, Deserialize, PartialEq)]
pub struct DxfSpec {
    pub bold: bool,
    pub italic: bool,
    pub font_argb: Option<String>,
    pub bg_argb: Option<String>,
    #[serde(default)]
    pub strike: bool,
    /// 0 no border, else index+1 into BORDER_STYLES; applied to the sides of `border_sides`
    #[serde(default)]
    pub border_style: u8,
    #[serde(default)]
    pub border_argb: Option<String>,
    /// bit 0 left, 1 right, 2 top, 3 bottom (0 = all four)
    #[serde(default)]
    pub border_sides: u8,
    /// 0 none, 1 center, 2 right
    #[serde(default)]
    pub align: u8,
    #[serde(default)]
    pub wrap: bool,
}

pub const BORDER_STYLES: [&str; 4] = ["thin", "medium", "dashed", "double"];

#[derive(Debug, Clone, Serialize, Deserialize, PartialEq)]
pub enum ColorSpec {
    Argb(String, Option<Num>),
    Theme(u32, Option<Num>),
    Indexed(u32),
}

#[derive(Debug, Clone, Serialize, Deserialize, PartialEq)]
pub struct ViewSpec {
    pub tab_selected: bool,
    pub pane: Option<PaneSpec>,
    pub selections: Vec<SelectionSpec>,
}

#[derive(Debug, Clone, Serialize, Deserialize, PartialEq)]
pub struct PaneSpec {
    pub x_split: Option<u32>,
    pub y_split: Option<u32>,
    pub top_left: (u32, u32),
    /// index into PANES
    pub active_pane: u8,
    /// index into PANE_STATES
    pub state: u8,
}

#[derive(Debug, Clone, Serialize, Deserialize, PartialEq)]
pub struct SelectionSpec {
    /// 0 none, else index+1 into PANES
    pub pane: u8,
    pub active_cell: Option<(u32, u32)>,
    pub sqref: Vec<RectSpec>,
}

#[derive(Debug, Clone, Serialize, Deserialize, PartialEq, Default)]
pub struct PageSpec {
    pub paper_size: Option<u32>,
    /// 0 none, 1 default, 2 landscape, 3 portrait
    pub orientation: u8,
    pub scale: Option<u32>,
    pub fit_to_height: Option<u32>,
    pub fit_to_width: Option<u32>,
    pub horizontal_dpi: Option<u32>,
    pub vertical_dpi: Option<u32>,
    /// printer settings blob
    pub object_data: Option<Vec<u8>>,
    /// left right top bottom header footer
    pub margins: Option<[Num; 6]>,
    pub horizontal_centered: Option<bool>,
    pub vertical_centered: Option<bool>,
}

pub const SHEET_PROT_FLAGS: [&str; 16] = [
    "sheet",
    "objects",
    "deleteRows",
    "insertColumns",
    "deleteColumns",
    "insertHyperlinks",
    "autoFilter",
    "scenarios",
    "formatCells",
    "formatColumns",
    "insertRows",
    "formatRows",
    "pivotTables",
    "selectLockedCells",
    "selectUnlockedCells",
    "sort",
];

#[derive(Debug, Clone, Serialize, Deserialize, PartialEq)]
pub struct SheetProtSpec {
    /// one entry per SHEET_PROT_FLAGS
    pub flags: Vec<Option<bool>>,
}

#[derive(Debug, Clone, Serialize, Deserialize, PartialEq)]
pub struct WbProtSpec {
    pub lock_structure: Option<bool>,
    pub lock_windows: Option<bool>,
    pub lock_revision: Option<bool>,
}

pub const DV_TYPES: [&str; 8] = ["custom", "date", "decimal", "list", "none", "textLength", "time", "whole"];
pub const DV_OPS: [&str; 8] = ["between", "equal", "greaterThan", "greaterThanOrEqual", "lessThan", "lessThanOrEqual", "notBetween", "notEqual"];
pub const CF_TYPES: [&str; 18] = [
    "aboveAverage",
    "beginsWith",
    "cellIs",
    "colorScale",
    "containsBlanks",
    "containsErrors",
    "containsText",
    "dataBar",
    "duplicateValues",
    "endsWith",
    "expression",
    "iconSet",
    "notContainsBlanks",
    "notContainsErrors",
    "notContainsText",
    "timePeriod",
    "top10",
    "uniqueValues",
];
pub const CF_OPS: [&str; 12] = [
    "beginsWith",
    "between",
    "containsText",
    "endsWith",
    "equal",
    "greaterThan",
    "greaterThanOrEqual",
    "lessThan",
    "lessThanOrEqual",
    "notBetween",
    "notContains",
    "notEqual",
];
pub const TIME_PERIODS: [&str; 10] = ["last7Days", "lastMonth", "lastWeek", "nextMonth", "nextWeek", "thisMonth", "thisWeek", "today", "tomorrow", "yesterday"];
pub const CFVO_TYPES: [&str; 6] = ["formula", "max", "min", "num", "percent", "percentile"];
pub const PANES: [&str; 4] = ["bottomLeft", "bottomRight", "topLeft", "topRight"];
pub const PANE_STATES: [&str; 3] = ["frozen", "frozenSplit", "split"];

pub fn dv_type(i: usize) -> DataValidationValues {
    use DataValidationValues::*;
    [Custom, Date, Decimal, List, None, TextLength, Time, Whole][i].clone()
}
pub fn dv_type_name(v: &DataValidationValues) -> &'static str {
    use DataValidationValues::*;
    match v {
        Custom => "custom",
        Date => "date",
        Decimal => "decimal",
        List => "list",
        None => "none",
        TextLength => "textLength",
        Time => "time",
        Whole => "whole",
    }
}
pub fn dv_op(i: usize) -> DataValidationOperatorValues {
    use DataValidationOperatorValues::*;
    [Between, Equal, GreaterThan, GreaterThanOrEqual, LessThan, LessThanOrEqual, NotBetween, NotEqual][i].clone()
}
pub fn dv_op_name(v: &DataValidationOperatorValues) -> &'static str {
    use DataValidationOperatorValues::*;
    match v {
        Between => "between",
        Equal => "equal",
        GreaterThan => "greaterThan",
        GreaterThanOrEqual => "greaterThanOrEqual",
        LessThan => "lessThan",
        LessThanOrEqual => "lessThanOrEqual",
        NotBetween => "notBetween",
        NotEqual => "notEqual",
    }
}
pub fn cf_type(i: usize) -> ConditionalFormatValues {
    use ConditionalFormatValues::*;
    [
        AboveAverage,
        BeginsWith,
        CellIs,
        ColorScale,
        ContainsBlanks,
        ContainsErrors,
        ContainsText,
        DataBar,
        DuplicateValues,
        EndsWith,
        Expression,
        IconSet,
        NotContainsBlanks,
        NotContainsErrors,
        NotContainsText,
        TimePeriod,
        Top10,
        UniqueValues,
    ][i]
        .clone()
}
pub fn cf_type_name(v: &ConditionalFormatValues) -> &'static str {
    use ConditionalFormatValues::*;
    match v {
        AboveAverage => "aboveAverage",
        BeginsWith => "beginsWith",
        CellIs => "cellIs",
        ColorScale => "colorScale",
        ContainsBlanks => "containsBlanks",
        ContainsErrors => "containsErrors",
        ContainsText => "containsText",
        DataBar => "dataBar",
        DuplicateValues => "duplicateValues",
        EndsWith => "endsWith",
        Expression => "expression",
        IconSet => "iconSet",
        NotContainsBlanks => "notContainsBlanks",
        NotContainsErrors => "notContainsErrors",
        NotContainsText => "notContainsText",
        TimePeriod => "timePeriod",
        Top10 => "top10",
        UniqueValues => "uniqueValues",
    }
}
pub fn cf_op(i: usize) -> ConditionalFormattingOperatorValues {
    use ConditionalFormattingOperatorValues::*;
    [BeginsWith, Between, ContainsText, EndsWith, Equal, GreaterThan, GreaterThanOrEqual, LessThan, LessThanOrEqual, NotBetween, NotContains, NotEqual][i].clone()
}
pub fn cf_op_name(v: &ConditionalFormattingOperatorValues) -> &'static str {
    use ConditionalFormattingOperatorValues::*;
    match v {
        BeginsWith => "beginsWith",
        Between => "between",
        ContainsText => "containsText",
        EndsWith => "endsWith",
        Equal => "equal",
        GreaterThan => "greaterThan",
        GreaterThanOrEqual => "greaterThanOrEqual",
        LessThan => "lessThan",
        LessThanOrEqual => "lessThanOrEqual",
        NotBetween => "notBetween",
        NotContains => "notContains",
        NotEqual => "notEqual",
    }
}
pub fn time_period(i: usize) -> TimePeriodValues {
    use TimePeriodValues::*;
    [Last7Days, LastMonth, LastWeek, NextMonth, NextWeek, ThisMonth, ThisWeek, Today, Tomorrow, Yesterday][i].clone()
}
pub fn time_period_name(v: &TimePeriodValues) -> &'static str {
    use TimePeriodValues::*;
    match v {
        Last7Days => "last7Days",
        LastMonth => "lastMonth",
        LastWeek => "lastWeek",
        NextMonth => "nextMonth",
        NextWeek => "nextWeek",
        ThisMonth => "thisMonth",
        ThisWeek => "thisWeek",
        Today => "today",
        Tomorrow => "tomorrow",
        Yesterday => "yesterday",
    }
}
pub fn cfvo_type(i: usize) -> ConditionalFormatValueObjectValues {
    use ConditionalFormatValueObjectValues::*;
    [Formula, Max, Min, Number, Percent, Percentile][i].clone()
}
pub fn cfvo_type_name(v: &ConditionalFormatValueObjectValues) -> &'static str {
    use ConditionalFormatValueObjectValues::*;
    match v {
        Formula => "formula",
        Max => "max",
        Min => "min",
        Number => "num",
        Percent => "percent",
        Percentile => "percentile",
    }
}
pub fn pane_value(i: usize) -> PaneValues {
    use PaneValues::*;
    [BottomLeft, BottomRight, TopLeft, TopRight][i].clone()
}
pub fn pane_name(v: &PaneValues) -> &'static str {
    use PaneValues::*;
    match v {
        BottomLeft => "bottomLeft",
        BottomRight => "bottomRight",
        TopLeft => "topLeft",
        TopRight => "topRight",
    }
}
pub fn pane_state(i: usize) -> PaneStateValues {
    use PaneStateValues::*;
    [Frozen, FrozenSplit, Split][i].clone()
}
pub fn pane_state_name(v: &PaneStateValues) -> &'static str {
    use PaneStateValues::*;
    match v {
        Frozen => "frozen",
        FrozenSplit => "frozenSplit",
        Split => "split",
    }
}
pub fn state_name(v: &SheetStateValues) -> &'static str {
    match v {
        SheetStateValues::Visible => "visible",
        SheetStateValues::Hidden => "hidden",
        SheetStateValues::VeryHidden => "veryHidden",
    }
}
pub fn orientation_name(v: &OrientationValues) -> &'static str {
    match v {
        OrientationValues::Default => "default",
        OrientationValues::Landscape => "landscape",
        OrientationValues::Portrait => "portrait",
    }
}

// ---------------------------------------------------------------------------------------
// rendering of references

/// Quote a sheet name for use in a reference the way a spreadsheet application does:
/// bare only when it is made of letters, digits, `_` and `.`, does not start with a digit
/// and cannot be read as a cell reference or boolean; otherwise in apostrophes with inner
/// apostrophes doubled.
pub fn quote_sheet(name: &str) -> String {
    let simple = !name.is_empty()
        && name.chars().all(|c| c.is_ascii_alphanumeric() || c == '_')
        && !name.chars().next().unwrap().is_ascii_digit()
        && !looks_like_ref(name);
    if simple {
        name.to_string()
    } else {
        format!("'{}'", name.replace('\'', "''"))
    }
}

fn looks_like_ref(s: &str) -> bool {
    let u = s.to_ascii_uppercase();
    if u == "TRUE" || u == "FALSE" {
        return true;
    }
    // A1 style: 1..3 letters then digits
    let letters = u.chars().take_while(|c| c.is_ascii_alphabetic()).count();
    let rest = &u[letters..];
    if (1..=3).contains(&letters) && !rest.is_empty() && rest.chars().all(|c| c.is_ascii_digit()) {
        return true;
    }
    // R1C1 style
    if u.starts_with('R') || u.starts_with('C') {
        let t = u.trim_start_matches(|c| c == 'R' || c == 'C');
        if t.chars().all(|c| c.is_ascii_digit() || c == 'R' || c == 'C') {
            return true;
        }
    }
    false
}

impl AnnotWb {
    pub fn sheet_name_of(&self, raw: u16) -> &str {
        &self.sheets[pick_idx(raw, self.sheets.len())].name
    }
    pub fn render_area(&self, a: &AreaSpec) -> String {
        let r = if a.absolute { a.rect.abs() } else { a.rect.a1() };
        format!("{}!{}", quote_sheet(self.sheet_name_of(a.sheet)), r)
    }
    pub fn render_name_text(&self, t: &NameText) -> String {
        match t {
            NameText::Areas { areas, .. } => areas.iter().map(|a| self.render_area(a)).collect::<Vec<_>>().join(","),
            NameText::Formula { template, sheet } => template.replace("{S}", &quote_sheet(self.sheet_name_of(*sheet))),
        }
    }
    /// indices (into `sheets`) of the sheets that are still there when the workbook is saved
    pub fn kept(&self) -> Vec<usize> {
        (0..self.sheets.len()).filter(|i| !self.sheets[*i].removed_before_save).collect()
    }
}

// ---------------------------------------------------------------------------------------
// builder (public API only)

fn color_of(c: &ColorSpec) -> Color {
    let mut col = Color::default();
    match c {
        ColorSpec::Argb(s, tint) => {
            col.set_argb(s.clone());
            if let Some(t) = tint {
                col.set_tint(t.0);
            }
        }
        ColorSpec::Theme(i, tint) => {
            col.set_theme_index(*i);
            if let Some(t) = tint {
                col.set_tint(t.0);
            }
        }
        ColorSpec::Indexed(i) => {
            col.set_indexed(*i);
        }
    }
    col
}

fn sqref_of(rects: &[RectSpec]) -> SequenceOfReferences {
    let mut s = SequenceOfReferences::default();
    s.set_sqref(rects.iter().map(|r| r.a1()).collect::<Vec<_>>().join(" "));
    s
}

fn coordinate_of(c: (u32, u32)) -> Coordinate {
    let mut co = Coordinate::default();
    co.set_col_num(c.0);
    co.set_row_num(c.1);
    co
}

fn add_name(book: &mut Spreadsheet, spec: &AnnotWb, home: Option<usize>, built_index: usize, n: &NameSpec) {
    // names can only be created through Worksheet::add_defined_name (DefinedName::set_name is
    // crate-private); a workbook-level name is created on a sheet and then moved to the
    // workbook's list
    let ws = book.get_sheet_mut(&built_index).unwrap();
    match &n.text {
        NameText::Areas { areas, via_add_address } if *via_add_address && areas.len() > 1 => {
            ws.add_defined_name(n.name.clone(), spec.render_area(&areas[0])).unwrap();
            let dn = ws.get_defined_names_mut().last_mut().unwrap();
            for a in &areas[1..] {
                dn.add_address(spec.render_area(a));
            }
        }
        t => {
            ws.add_defined_name(n.name.clone(), spec.render_name_text(t)).unwrap();
        }
    }
    let dn = ws.get_defined_names_mut().last_mut().unwrap();
    if n.local && home.is_some() {
        dn.set_local_sheet_id(built_index as u32);
    }
    if n.hidden {
        dn.set_hidden(true);
    }
    if home.is_none() {
        let dn = ws.get_defined_names_mut().pop().unwrap();
        book.add_defined_names(dn);
    }
}

fn build_sheet(ws: &mut Worksheet, s: &AnnotSheet) {
    match s.state {
        1 => {
            ws.set_state(SheetStateValues::Visible);
        }
        2 => {
            ws.set_state(SheetStateValues::Hidden);
        }
        3 => {
            ws.set_state(SheetStateValues::VeryHidden);
        }
        _ => {}
    }
    for m in &s.merges {
        ws.add_merge_cells(m.a1_range());
    }
    for l in &s.links {
        let h = ws.get_cell_mut((l.col, l.row)).get_hyperlink_mut();
        h.set_url(l.target.clone());
        if l.internal {
            h.set_location(true);
        }
        if let Some(t) = &l.tooltip {
            h.set_tooltip(t.clone());
        }
    }
    for c in &s.comments {
        let mut co = Comment::default();
        if c.with_shape {
            co.new_comment((c.col, c.row));
        } else {
            co.get_coordinate_mut().set_col_num(c.col).set_row_num(c.row);
        }
        co.set_author(c.author.clone());
        if c.runs.len() == 1 {
            co.set_text_string(c.runs[0].clone());
        } else {
            let mut rt = RichText::default();
            for r in &c.runs {
                let mut te = TextElement::default();
                te.set_text(r.clone());
                rt.add_rich_text_elements(te);
            }
            co.set_text(rt);
        }
        ws.add_comments(co);
    }
    if !s.validations.is_empty() {
        let mut dvs = DataValidations::default();
        for v in &s.validations {
            let mut d = DataValidation::default();
            if v.kind > 0 {
                d.set_type(dv_type(v.kind as usize - 1));
            }
            if v.operator > 0 {
                d.set_operator(dv_op(v.operator as usize - 1));
            }
            if let Some(b) = v.allow_blank {
                d.set_allow_blank(b);
            }
            if let Some(b) = v.show_input {
                d.set_show_input_message(b);
            }
            if let Some(b) = v.show_error {
                d.set_show_error_message(b);
            }
            if let Some(t) = &v.prompt_title {
                d.set_prompt_title(t.clone());
            }
            if let Some(t) = &v.prompt {
                d.set_prompt(t.clone());
            }
            if let Some(t) = &v.error_title {
                d.set_error_title(t.clone());
            }
            if let Some(t) = &v.error {
                d.set_error_message(t.clone());
            }
            if let Some(t) = &v.formula1 {
                d.set_formula1(t.clone());
            }
            if let Some(t) = &v.formula2 {
                d.set_formula2(t.clone());
            }
            d.set_sequence_of_references(sqref_of(&v.sqref));
            dvs.add_data_validation_list(d);
        }
        ws.set_data_validations(dvs);
    }
    for cf in &s.cond_formats {
        let mut c = ConditionalFormatting::default();
        c.set_sequence_of_references(sqref_of(&cf.sqref));
        for r in &cf.rules {
            let mut rule = ConditionalFormattingRule::default();
            rule.set_type(cf_type(r.kind as usize));
            if r.operator > 0 {
                rule.set_operator(cf_op(r.operator as usize - 1));
            }
            rule.set_priority(r.priority);
            if let Some(f) = &r.formula {
                let mut fo = Formula::default();
                fo.set_string_value(f.clone());
                rule.set_formula(fo);
            }
            if let Some(d) = &r.dxf {
                let mut st = Style::default();
                if d.bold || d.italic || d.font_argb.is_some() {
                    let f = st.get_font_mut();
                    if d.bold {
                        f.set_bold(true);
                    }
                    if d.italic {
                        f.set_italic(true);
                    }
                    if let Some(a) = &d.font_argb {
                        f.get_color_mut().set_argb(a.clone());
                    }
                }
                if d.strike {
                    st.get_font_mut().set_strikethrough(true);
                }
                if let Some(a) = &d.bg_argb {
                    st.set_background_color(a.clone());
                }
                if d.border_style > 0 {
                    let sides = if d.border_sides & 15 == 0 { 15 } else { d.border_sides & 15 };
                    let style = BORDER_STYLES[(d.border_style as usize - 1) % BORDER_STYLES.len()];
                    let bs = st.get_borders_mut();
                    for bit in 0..4 {
                        if sides & (1 << bit) == 0 {
                            continue;
                        }
                        let side = match bit {
                            0 => bs.get_left_mut(),
                            1 => bs.get_right_mut(),
                            2 => bs.get_top_mut(),
                            _ => bs.get_bottom_mut(),
                        };
                        side.set_border_style(style);
                        if let Some(a) = &d.border_argb {
                            side.get_color_mut().set_argb(a.clone());
                        }
                    }
                }
                if d.align > 0 || d.wrap {
                    let al = st.get_alignment_mut();
                    match d.align {
                        1 => al.set_horizontal(HorizontalAlignmentValues::Center),
                        2 => al.set_horizontal(HorizontalAlignmentValues::Right),
                        _ => {}
                    }
                    if d.wrap {
                        al.set_wrap_text(true);
                    }
                }
                rule.set_style(st);
            }
            if let Some(t) = &r.text {
                rule.set_text(t.clone());
            }
            if let Some(b) = r.percent {
                rule.set_percent(b);
            }
            if let Some(b) = r.bottom {
                rule.set_bottom(b);
            }
            if let Some(b) = r.rank {
                rule.set_rank(b);
            }
            if let Some(b) = r.stop_if_true {
                rule.set_stop_if_true(b);
            }
            if let Some(b) = r.std_dev {
                rule.set_std_dev(b);
            }
            if let Some(b) = r.above_average {
                rule.set_above_average(b);
            }
            if let Some(b) = r.equal_average {
                rule.set_equal_average(b);
            }
            if r.time_period > 0 {
                rule.set_time_period(time_period(r.time_period as usize - 1));
            }
            let cfvos: Vec<ConditionalFormatValueObject> = r
                .cfvo
                .iter()
                .map(|(t, v)| {
                    let mut o = ConditionalFormatValueObject::default();
                    o.set_type(cfvo_type(*t as usize));
                    if let Some(v) = v {
                        o.set_val(v.clone());
                    }
                    o
                })
                .collect();
            let colors: Vec<Color> = r.colors.iter().map(color_of).collect();
            match r.visual {
                1 => {
                    let mut o = ColorScale::default();
                    for v in cfvos {
                        o.add_cfvo_collection(v);
                    }
                    for v in colors {
                        o.add_color_collection(v);
                    }
                    rule.set_color_scale(o);
                }
                2 => {
                    let mut o = DataBar::default();
                    for v in cfvos {
                        o.add_cfvo_collection(v);
                    }
                    for v in colors {
                        o.add_color_collection(v);
                    }
                    rule.set_data_bar(o);
                }
                3 => {
                    let mut o = IconSet::default();
                    for v in cfvos {
                        o.add_cfvo_collection(v);
                    }
                    for v in colors {
                        o.add_color_collection(v);
                    }
                    rule.set_icon_set(o);
                }
                _ => {}
            }
            c.add_conditional_collection(rule);
        }
        ws.add_conditional_formatting_collection(c);
    }
    if let Some(r) = &s.auto_filter {
        ws.set_auto_filter(r.a1_range());
    }
    if let Some(c) = &s.tab_color {
        ws.set_tab_color(color_of(c));
    }
    if let Some(v) = &s.view {
        let mut view = SheetView::default();
        if v.tab_selected {
            view.set_tab_selected(true);
        }
        if let Some(p) = &v.pane {
            let mut pane = Pane::default();
            if let Some(x) = p.x_split {
                pane.set_horizontal_split(x as f64);
            }
            if let Some(y) = p.y_split {
                pane.set_vertical_split(y as f64);
            }
            pane.set_top_left_cell(coordinate_of(p.top_left));
            pane.set_active_pane(pane_value(p.active_pane as usize));
            pane.set_state(pane_state(p.state as usize));
            view.set_pane(pane);
        }
        for sel in &v.selections {
            let mut o = Selection::default();
            if sel.pane > 0 {
                o.set_pane(pane_value(sel.pane as usize - 1));
            }
            if let Some(c) = sel.active_cell {
                o.set_active_cell(coordinate_of(c));
            }
            if !sel.sqref.is_empty() {
                o.set_sequence_of_references(sqref_of(&sel.sqref));
            }
            view.set_selection(o);
        }
        ws.get_sheet_views_mut().add_sheet_view_list_mut(view);
    }
    if let Some(c) = s.ws_active_cell {
        ws.set_active_cell(format!("{}{}", col_name(c.0), c.1));
    }
    let p = &s.page;
    {
        let ps = ws.get_page_setup_mut();
        if let Some(v) = p.paper_size {
            ps.set_paper_size(v);
        }
        match p.orientation {
            1 => {
                ps.set_orientation(OrientationValues::Default);
            }
            2 => {
                ps.set_orientation(OrientationValues::Landscape);
            }
            3 => {
                ps.set_orientation(OrientationValues::Portrait);
            }
            _ => {}
        }
        if let Some(v) = p.scale {
            ps.set_scale(v);
        }
        if let Some(v) = p.fit_to_height {
            ps.set_fit_to_height(v);
        }
        if let Some(v) = p.fit_to_width {
            ps.set_fit_to_width(v);
        }
        if let Some(v) = p.horizontal_dpi {
            ps.set_horizontal_dpi(v);
        }
        if let Some(v) = p.vertical_dpi {
            ps.set_vertical_dpi(v);
        }
        if let Some(v) = &p.object_data {
            ps.set_object_data(v.clone());
        }
    }
    if let Some(m) = &p.margins {
        let pm = ws.get_page_margins_mut();
        pm.set_left(m[0].0);
        pm.set_right(m[1].0);
        pm.set_top(m[2].0);
        pm.set_bottom(m[3].0);
        pm.set_header(m[4].0);
        pm.set_footer(m[5].0);
    }
    if let Some(b) = p.horizontal_centered {
        ws.get_print_options_mut().set_horizontal_centered(b);
    }
    if let Some(b) = p.vertical_centered {
        ws.get_print_options_mut().set_vertical_centered(b);
    }
    if let Some(h) = &s.header {
        ws.get_header_footer_mut().get_odd_header_mut().set_value(h.clone());
    }
    if let Some(h) = &s.footer {
        ws.get_header_footer_mut().get_odd_footer_mut().set_value(h.clone());
    }
    if let Some(t) = &s.table {
        // table names are unique in the workbook: derived from the sheet id
        let mut table = Table::new(&format!("Table_{}", ws.get_sheet_id()), ((t.c1, t.r1), (t.c2, t.r2)));
        for c in t.c1..=t.c2 {
            table.add_column(TableColumn::new(&format!("Col{}", c)));
            ws.get_cell_mut((c, t.r1)).set_value_string(format!("Col{}", c));
        }
        ws.add_table(table);
    }
    if let Some(pr) = &s.protection {
        let sp = ws.get_sheet_protection_mut();
        for (i, f) in pr.flags.iter().enumerate() {
            let Some(b) = *f else { continue };
            match i {
                0 => sp.set_sheet(b),
                1 => sp.set_objects(b),
                2 => sp.set_delete_rows(b),
                3 => sp.set_insert_columns(b),
                4 => sp.set_delete_columns(b),
                5 => sp.set_insert_hyperlinks(b),
                6 => sp.set_auto_filter(b),
                7 => sp.set_scenarios(b),
                8 => sp.set_format_cells(b),
                9 => sp.set_format_columns(b),
                10 => sp.set_insert_rows(b),
                11 => sp.set_format_rows(b),
                12 => sp.set_pivot_tables(b),
                13 => sp.set_select_locked_cells(b),
                14 => sp.set_select_unlocked_cells(b),
                _ => sp.set_sort(b),
            };
        }
    }
}

/// Build through the public API only.
pub fn build(spec: &AnnotWb) -> Spreadsheet {
    let mut book = umya_spreadsheet::new_file_empty_worksheet();
    for s in &spec.sheets {
        let ws = book.new_sheet(s.name.clone()).expect("generator produces distinct legal names");
        build_sheet(ws, s);
    }
    // names need every sheet name, so they come after the sheets
    for (i, s) in spec.sheets.iter().enumerate() {
        for n in &s.names {
            add_name(&mut book, spec, Some(i), i, n);
        }
    }
    for n in &spec.wb_names {
        add_name(&mut book, spec, None, 0, n);
    }
    for i in (0..spec.sheets.len()).rev() {
        if spec.sheets[i].removed_before_save {
            book.remove_sheet(i).unwrap();
        }
    }
    if spec.set_active || spec.active_tab > 0 {
        book.set_active_sheet(spec.active_tab);
    }
    if let Some(p) = &spec.wb_protection {
        let wp = book.get_workbook_protection_mut();
        if let Some(b) = p.lock_structure {
            wp.set_lock_structure(b);
        }
        if let Some(b) = p.lock_windows {
            wp.set_lock_windows(b);
        }
        if let Some(b) = p.lock_revision {
            wp.set_lock_revision(b);
        }
    }
    book
}

// ---------------------------------------------------------------------------------------
// strategies
//
// No `prop_flat_map` anywhere: list lengths come from `prop::collection::vec` size ranges, so
// a failing case shrinks by dropping sheets and annotations one by one.

/// What the generator is allowed to produce: the *clean* strata leave out the input
/// features of open known findings (the check counts what was left out), the *dirty*
/// stratum puts them in.
#[derive(Debug, Clone, Copy, PartialEq)]
pub struct Feat {
    pub ws_active_cell: bool,
    pub edge_blank_header: bool,
}

impl Feat {
    pub const ALL: Feat = Feat {
        ws_active_cell: true,
        edge_blank_header: true,
    };
    pub const CLEAN: Feat = Feat {
        ws_active_cell: false,
        edge_blank_header: false,
    };
}

/// 0..=max elements: mostly few, sometimes a dozen, now and then up to `max`.
pub fn sized_vec<T: std::fmt::Debug + Clone + 'static>(e: BoxedStrategy<T>, max: usize) -> BoxedStrategy<Vec<T>> {
    prop_oneof![
        4 => prop::collection::vec(e.clone(), 0..=max.min(3)),
        3 => prop::collection::vec(e.clone(), 0..=max.min(8)),
        1 => prop::collection::vec(e, 0..=max),
    ]
    .boxed()
}

/// `prop::option::weighted` / `prop::bool::weighted` that accept probability 0
fn opt_w<T: std::fmt::Debug + Clone + 'static>(p: f64, s: BoxedStrategy<T>) -> BoxedStrategy<Option<T>> {
    if p <= 0.0 {
        Just(None).boxed()
    } else {
        prop::option::weighted(p, s).boxed()
    }
}

fn opt_bool() -> BoxedStrategy<Option<bool>> {
    prop_oneof![2 => Just(None), 1 => Just(Some(true)), 1 => Just(Some(false))].boxed()
}

/// Disjoint rectangles: the sheet is cut into 6x6 slots of 5 columns x 5 rows starting at a
/// generated origin; every rectangle lives inside its own slot (a slot used twice keeps its
/// first rectangle).
type SlotRect = (u8, u32, u32, u32, u32);

fn slot_rect() -> BoxedStrategy<SlotRect> {
    (0u8..36, 0u32..5, 0u32..5, 0u32..5, 0u32..5).boxed()
}

fn origin() -> BoxedStrategy<(u32, u32)> {
    prop_oneof![
        6 => Just((1u32, 1u32)),
        1 => Just((16384 - 30 + 1, 1048576 - 30 + 1)),
        1 => Just((690, 65520)),
        1 => (1u32..16000, 1u32..1000000),
    ]
    .boxed()
}

fn place(origin: (u32, u32), s: SlotRect, multi_cell_only: bool) -> RectSpec {
    let (slot, a, b, c, d) = s;
    let (oc, or) = origin;
    let (sc, sr) = ((slot % 6) as u32, (slot / 6) as u32);
    let (c1, c2) = (a.min(b), a.max(b));
    let (r1, r2) = (c.min(d), c.max(d));
    let mut r = RectSpec {
        c1: oc + sc * 5 + c1,
        r1: or + sr * 5 + r1,
        c2: oc + sc * 5 + c2,
        r2: or + sr * 5 + r2,
    };
    if multi_cell_only && r.c1 == r.c2 && r.r1 == r.r2 {
        if c1 < 4 {
            r.c2 += 1;
        } else {
            r.c1 -= 1;
        }
    }
    r
}

pub fn disjoint_rects(max: usize, multi_cell_only: bool) -> BoxedStrategy<Vec<RectSpec>> {
    (origin(), sized_vec(slot_rect(), max))
        .prop_map(move |(o, v)| {
            let mut used = BTreeSet::new();
            v.into_iter().filter(|s| used.insert(s.0)).map(|s| place(o, s, multi_cell_only)).collect()
        })
        .boxed()
}

fn any_rect() -> BoxedStrategy<RectSpec> {
    (col_pos(), row_pos(), 0u32..4, 0u32..6)
        .prop_map(|(c, r, w, h)| RectSpec {
            c1: c,
            r1: r,
            c2: (c + w).min(16384),
            r2: (r + h).min(1048576),
        })
        .boxed()
}

/// Range lists with a distinct first range each (hence distinct sqref texts), every list with
/// a payload.
fn sqref_items<T: std::fmt::Debug + Clone + 'static>(max: usize, payload: BoxedStrategy<T>) -> BoxedStrategy<Vec<(Vec<RectSpec>, T)>> {
    (origin(), sized_vec((slot_rect(), prop::collection::vec(any_rect(), 0..=2), payload).boxed(), max))
        .prop_map(|(o, v)| {
            let mut used = BTreeSet::new();
            v.into_iter()
                .filter(|(s, _, _)| used.insert(s.0))
                .map(|(s, mut extra, p)| {
                    let mut l = vec![place(o, s, false)];
                    l.append(&mut extra);
                    (l, p)
                })
                .collect()
        })
        .boxed()
}

/// Defined-name identifiers: letters (also non-ASCII), digits, `_`, `.`, `\`; not a cell
/// reference; unique per scope is arranged by `normalise`.
pub fn name_ident() -> BoxedStrategy<String> {
    prop_oneof![
        4 => "[A-Za-z_][A-Za-z0-9_.]{0,10}".prop_map(|s| s),
        2 => ("[A-Za-z_]{1,3}", prop::sample::select(vec!["é", "日本", "Ж", "ß", "名前", "Ω"]), "[A-Za-z0-9_.]{0,4}").prop_map(|(a, b, c)| format!("{}{}{}", a, b, c)),
        1 => prop::sample::select(vec!["_xlnm.Print_Area", "_xlnm.Print_Titles", "_xlnm._FilterDatabase", "Total_2024", "données", "範囲", "x.y.z", "_", "\\a"]).prop_map(|s| s.to_string()),
    ]
    .prop_map(|s| if looks_like_ref(&s) { format!("_{}", s) } else { s })
    .boxed()
}

const NAME_FORMULAS: [&str; 14] = [
    "42",
    "3.14",
    "-1E+20",
    "TRUE",
    "#REF!",
    "SUM({S}!$A$1:$A$9)",
    "OFFSET({S}!$A$1,0,0,COUNTA({S}!$A:$A),1)",
    "IF(1<2,\"a&b\",\"<c>\")",
    "{S}!$A:$A",
    "{S}!$1:$3",
    "INDEX({S}!$B$2:$D$9,2,3)",
    "LEN(\"日本 'x'\")>1",
    "({S}!$A$1:$B$2,{S}!$D$4)",
    "1<>2",
];

fn name_text() -> BoxedStrategy<NameText> {
    let area = (any::<u16>(), any_rect(), prop::bool::weighted(0.8)).prop_map(|(sheet, rect, absolute)| AreaSpec { sheet, rect, absolute });
    prop_oneof![
        6 => (prop::collection::vec(area, 1..=3), any::<bool>()).prop_map(|(areas, via_add_address)| NameText::Areas { areas, via_add_address }),
        3 => (prop::sample::select(NAME_FORMULAS.to_vec()), any::<u16>()).prop_map(|(t, sheet)| NameText::Formula { template: t.to_string(), sheet }),
    ]
    .boxed()
}

pub fn name_specs(max: usize, allow_local: bool) -> BoxedStrategy<Vec<NameSpec>> {
    let local = if allow_local { prop::bool::weighted(0.4).boxed() } else { Just(false).boxed() };
    sized_vec(
        (name_ident(), local, prop::bool::weighted(0.15), name_text())
            .prop_map(|(name, local, hidden, text)| NameSpec { name, local, hidden, text })
            .boxed(),
        max,
    )
}

pub fn url() -> BoxedStrategy<String> {
    let seg_char = prop_oneof![
        20 => prop::char::range('a', 'z'),
        4 => prop::char::range('0', '9'),
        6 => prop::sample::select(vec!['&', '?', '=', '#', '%', '-', '_', '.', '~', '+', ',', ';', ':', '@', '!', '(', ')']),
        3 => prop::sample::select(vec!['é', 'ü', '日', '本', 'Ж', '한', '😀']),
    ];
    let path = prop::collection::vec(seg_char, 0..24).prop_map(|v| v.into_iter().collect::<String>());
    prop_oneof![
        6 => (prop::sample::select(vec!["http://", "https://", "ftp://"]), "[a-z]{1,8}(\\.[a-z]{2,5}){1,2}", path.clone()).prop_map(|(s, h, p)| format!("{}{}/{}", s, h, p)),
        2 => prop::sample::select(vec![
            "https://example.com/?a=1&b=2",
            "https://example.com/?a=1&amp;b=2",
            "https://example.com/a%20b#frag",
            "https://example.com/q?x=%26&y=<z>",
            "mailto:user@example.com?subject=a&body=b",
            "https://例え.jp/パス?q=日本",
            "file:///C:/dir/a&b.xlsx",
            "https://example.com/'quoted'",
            "https://example.com/\"dq\"",
            "http://a/b?c=d&lt;e",
        ]).prop_map(|s| s.to_string()),
        1 => ("[a-z]{1,6}", path).prop_map(|(h, p)| format!("mailto:{}@{}.org?subject={}", h, h, p)),
    ]
    .boxed()
}

/// Degenerate but API-legal external targets: nothing, only blanks, blanks at the edges.
pub const DEGENERATE_URLS: [&str; 5] = ["", " ", " \t", "  https://example.com/padded ", "\thttp://a.aa/"];

pub fn degenerate_url_class(u: &str) -> Option<&'static str> {
    if u.is_empty() {
        Some("empty")
    } else if u == " " {
        Some("blank")
    } else if u.trim().is_empty() {
        Some("blanks+tab")
    } else if u.trim() != u {
        Some("edge-blanks")
    } else {
        None
    }
}

/// A degenerate external link on A1, i.e. in front of every other link of the sheet in the
/// row/column order both writers use (a link already on A1 is replaced).
fn put_degenerate_first(links: &mut Vec<LinkSpec>, target: Option<String>) {
    if let Some(t) = target {
        links.retain(|l| !(l.col == 1 && l.row == 1));
        links.insert(
            0,
            LinkSpec {
                col: 1,
                row: 1,
                internal: false,
                target: t,
                tooltip: None,
            },
        );
    }
}

fn degenerate_url(p: f64) -> BoxedStrategy<Option<String>> {
    prop::option::weighted(p, prop::sample::select(DEGENERATE_URLS.to_vec()).prop_map(|s| s.to_string())).boxed()
}

/// Internal locations name a sheet of the workbook; which one is only known when the sheet
/// list exists, so the generator leaves a marker `\u{1}<raw index>\u{1}` that `normalise`
/// replaces by the quoted sheet name.
fn location() -> BoxedStrategy<String> {
    prop_oneof![
        5 => (any::<u16>(), any_rect()).prop_map(|(s, r)| format!("\u{1}{}\u{1}!{}", s, r.a1())),
        1 => any_rect().prop_map(|r| r.a1()),
        1 => prop::sample::select(vec!["Total_2024", "données"]).prop_map(|s| s.to_string()),
    ]
    .boxed()
}

pub fn link_specs(max: usize) -> BoxedStrategy<Vec<LinkSpec>> {
    let target = prop_oneof![
        5 => url().prop_map(|u| (false, u)),
        2 => location().prop_map(|l| (true, l)),
    ];
    (sized_vec((col_pos(), row_pos(), target, opt_text(0.3, nonempty_text(12))).boxed(), max), degenerate_url(0.12))
        .prop_map(|(v, deg)| {
            let mut seen = BTreeSet::new();
            let mut links: Vec<LinkSpec> = v
                .into_iter()
                .filter(|(c, r, _, _)| seen.insert((*c, *r)))
                .map(|(col, row, (internal, target), tooltip)| LinkSpec { col, row, internal, target, tooltip })
                .collect();
            // only next to other links: alone it would say nothing about numbering
            if !links.is_empty() {
                put_degenerate_first(&mut links, deg);
            }
            links
        })
        .boxed()
}

pub fn author() -> BoxedStrategy<String> {
    prop_oneof![
        5 => prop::sample::select(vec!["Alice", "Bob", "alice", "Ünsal Ä.", "山田 太郎", "A&B <c>", "O'Neil \"Q\"", "x", " pad ", "Alice "]).prop_map(|s| s.to_string()),
        3 => nonempty_text(10),
        2 => Just(String::new()),
    ]
    .boxed()
}

pub fn comment_specs(max: usize) -> BoxedStrategy<Vec<CommentSpec>> {
    sized_vec((col_pos(), row_pos(), author(), prop::collection::vec(prop_oneof![9 => nonempty_text(16), 1 => Just(String::new())], 1..=3), prop::bool::weighted(0.15)).boxed(), max)
        .prop_map(|v| {
            let mut seen = BTreeSet::new();
            v.into_iter()
                .filter(|(c, r, _, _, _)| seen.insert((*c, *r)))
                .map(|(col, row, author, runs, bare)| CommentSpec {
                    col,
                    row,
                    author,
                    runs,
                    with_shape: !bare,
                })
                .collect()
        })
        .boxed()
}

/// an optional text: absent, present but EMPTY (its own class), or a real text
fn opt_text(p_some: f64, t: BoxedStrategy<String>) -> BoxedStrategy<Option<String>> {
    prop_oneof![
        ((1.0 - p_some) * 100.0) as u32 => Just(None),
        12 => Just(Some(String::new())),
        (p_some * 100.0) as u32 => t.prop_map(Some),
    ]
    .boxed()
}

/// formula-like texts without edge blanks (the worksheet part is read with trimmed text nodes)
fn small_formula() -> BoxedStrategy<String> {
    prop::sample::select(vec![
        "1", "100", "0.5", "\"a,b,c\"", "$A$1:$A$5", "A1>5", "AND(A1<>\"\",B1<5)", "\"<&>\"", "LEN(A1)>3", "TODAY()", "\"日本,한\"", "A1&\"'\"", "$Z$9", "Sheet1!$A$1:$A$3", "1<2", "NOT(ISERROR(SEARCH(\"x\",A1)))",
    ])
    .prop_map(|s| s.to_string())
    .boxed()
}

pub fn dv_specs(max: usize) -> BoxedStrategy<Vec<DvSpec>> {
    let payload = (
        (0u8..=8, 0u8..=8, opt_bool(), opt_bool(), opt_bool()),
        (
            opt_text(0.3, plain_text(12)),
            opt_text(0.3, plain_text(20)),
            opt_text(0.3, plain_text(12)),
            opt_text(0.3, plain_text(20)),
        ),
        opt_text(0.7, small_formula()),
        // a second formula that is present but empty next to a first one is what is left of a
        // "between" rule that was turned into "greater than"
        prop_oneof![4 => Just(None), 3 => Just(Some(String::new())), 3 => small_formula().prop_map(Some)],
    )
        .boxed();
    sqref_items(max, payload)
        .prop_map(|v| {
            v.into_iter()
                .map(|(sqref, ((kind, operator, allow_blank, show_input, show_error), (prompt_title, prompt, error_title, error), formula1, formula2))| DvSpec {
                    sqref,
                    kind,
                    operator,
                    allow_blank,
                    show_input,
                    show_error,
                    prompt_title,
                    prompt,
                    error_title,
                    error,
                    formula1,
                    formula2,
                })
                .collect()
        })
        .boxed()
}

pub fn argb() -> BoxedStrategy<String> {
    prop_oneof![
        3 => prop::sample::select(vec!["FFFF0000", "FF00FF00", "FF0000FF", "FFFFFF00", "FF123456", "80ABCDEF", "FFFFFFFF", "FF000000", "00000000"]).prop_map(|s| s.to_string()),
        2 => "[0-9A-F]{8}".prop_map(|s| s),
    ]
    .boxed()
}

pub fn color_spec() -> BoxedStrategy<ColorSpec> {
    let tint = prop::option::weighted(0.3, prop::sample::select(vec![-0.499984740745262, 0.39997558519241921, -0.249977111117893, 0.5, -1.0, 0.1]).prop_map(Num));
    prop_oneof![
        4 => (argb(), tint.clone()).prop_map(|(a, t)| ColorSpec::Argb(a, t)),
        2 => (0u32..10, tint).prop_map(|(i, t)| ColorSpec::Theme(i, t)),
        1 => (0u32..64).prop_map(ColorSpec::Indexed),
    ]
    .boxed()
}

/// Differential styles in *families*: a few base styles and their single-attribute neighbours
/// (same font and fill but another border, same font and border but another fill, ...), so that
/// one workbook (several rules, several sheets) regularly holds styles that differ in exactly one
/// part -- a style table that merges two of them gives a rule its sibling's looks.
pub fn dxf_spec() -> BoxedStrategy<DxfSpec> {
    let colors = || prop::sample::select(vec![None, Some("FFFF0000".to_string()), Some("FF0000FF".to_string()), Some("FF123456".to_string())]);
    let base = prop::sample::select(vec![
        DxfSpec { bold: true, italic: false, font_argb: Some("FFFF0000".to_string()), bg_argb: Some("FFFFFF00".to_string()), strike: false, border_style: 1, border_argb: None, border_sides: 0, align: 0, wrap: false },
        DxfSpec { bold: false, italic: false, font_argb: None, bg_argb: Some("FF00FF00".to_string()), strike: false, border_style: 0, border_argb: None, border_sides: 0, align: 0, wrap: false },
        DxfSpec { bold: false, italic: true, font_argb: Some("FF0000FF".to_string()), bg_argb: None, strike: false, border_style: 2, border_argb: Some("FFFF0000".to_string()), border_sides: 8, align: 1, wrap: false },
    ]);
    let neighbour = (base.clone(), 0u8..10, colors(), 0u8..=4, 0u8..16).prop_map(|(mut d, which, col, n, sides)| {
        match which {
            0 => d.bold = !d.bold,
            1 => d.italic = !d.italic,
            2 => d.font_argb = col,
            3 => d.bg_argb = col,
            4 => d.strike = !d.strike,
            5 => d.border_style = n,
            6 => {
                d.border_style = d.border_style.max(1);
                d.border_argb = col
            }
            7 => {
                d.border_style = d.border_style.max(1);
                d.border_sides = sides
            }
            8 => d.align = n % 3,
            _ => d.wrap = !d.wrap,
        }
        d
    });
    let free = ((any::<bool>(), any::<bool>(), colors(), colors(), prop::bool::weighted(0.2)), (0u8..=4, colors(), 0u8..16, 0u8..3, prop::bool::weighted(0.2))).prop_map(
        |((bold, italic, font_argb, bg_argb, strike), (border_style, border_argb, border_sides, align, wrap))| DxfSpec {
            bold,
            italic,
            font_argb,
            bg_argb,
            strike,
            border_style,
            border_argb,
            border_sides,
            align,
            wrap,
        },
    );
    prop_oneof![2 => base, 4 => neighbour, 2 => free].boxed()
}

fn cf_rule() -> BoxedStrategy<CfRuleSpec> {
    (
        (0u8..CF_TYPES.len() as u8, 0u8..=12, opt_text(0.7, small_formula())),
        prop::option::weighted(0.7, dxf_spec()),
        (opt_text(0.7, plain_text(8)), opt_bool(), opt_bool(), prop::option::weighted(0.5, 1u32..1000), opt_bool()),
        (prop::option::weighted(0.5, -3i32..4), opt_bool(), opt_bool(), 0u8..=10),
        (prop::collection::vec((0u8..6, opt_text(0.6, "[0-9]{1,3}".prop_map(|s| s).boxed())), 2..=3), prop::collection::vec(color_spec(), 1..=3)),
    )
        .prop_map(move |((kind, operator, formula), dxf, (text, percent, bottom, rank, stop_if_true), (std_dev, above_average, equal_average, time_period), (cfvo, colors))| {
            let k = CF_TYPES[kind as usize];
            // only the attributes that belong to the rule kind are set (what the API user of
            // that kind would do)
            let visual = match k {
                "colorScale" => 1,
                "dataBar" => 2,
                "iconSet" => 3,
                _ => 0,
            };
            let text_kinds = ["containsText", "notContainsText", "beginsWith", "endsWith"];
            let uses_text = text_kinds.contains(&k);
            let top10 = k == "top10";
            let avg = k == "aboveAverage";
            CfRuleSpec {
                kind,
                operator: if k == "cellIs" {
                    operator.max(1)
                } else if uses_text {
                    [3u8, 11, 1, 4][text_kinds.iter().position(|x| *x == k).unwrap()]
                } else {
                    0
                },
                priority: 0,
                formula: if visual > 0 { None } else { formula },
                dxf: if visual > 0 { None } else { dxf },
                text: if uses_text { text } else { None },
                percent: if top10 { percent } else { None },
                bottom: if top10 { bottom } else { None },
                rank: if top10 { rank } else { None },
                stop_if_true,
                std_dev: if avg { std_dev } else { None },
                above_average: if avg { above_average } else { None },
                equal_average: if avg { equal_average } else { None },
                time_period: if k == "timePeriod" { time_period.max(1) } else { 0 },
                visual,
                cfvo: if visual > 0 { cfvo } else { Vec::new() },
                colors: if visual > 0 { colors } else { Vec::new() },
            }
        })
        .boxed()
}

pub fn cf_specs(max: usize) -> BoxedStrategy<Vec<CfSpec>> {
    sqref_items(max, prop::collection::vec(cf_rule(), 1..=3).boxed())
        .prop_map(|v| {
            // priorities are unique per sheet
            let mut prio = 0;
            v.into_iter()
                .map(|(sqref, mut rules)| {
                    for r in rules.iter_mut() {
                        prio += 1;
                        r.priority = prio;
                    }
                    CfSpec { sqref, rules }
                })
                .collect()
        })
        .boxed()
}

fn cell() -> BoxedStrategy<(u32, u32)> {
    (col_pos(), row_pos()).boxed()
}

pub fn view_spec() -> BoxedStrategy<ViewSpec> {
    let pane = (prop::option::weighted(0.7, 1u32..6), prop::option::weighted(0.7, 1u32..9), cell(), 0u8..4, 0u8..3).prop_map(|(x, y, tl, ap, st)| PaneSpec {
        x_split: x,
        y_split: y,
        top_left: tl,
        active_pane: ap,
        state: st,
    });
    let sel = (0u8..=4, prop::option::weighted(0.8, cell()), prop::collection::vec(any_rect(), 0..=3)).prop_map(|(pane, active_cell, mut sqref)| {
        // the active cell is one of the selected ranges (that is what a selection is)
        if let Some((c, r)) = active_cell {
            if !sqref.is_empty() {
                sqref[0] = RectSpec { c1: c, r1: r, c2: c, r2: r };
            }
        }
        SelectionSpec { pane, active_cell, sqref }
    });
    (any::<bool>(), prop::option::weighted(0.6, pane), prop::collection::vec(sel, 0..=3))
        .prop_map(|(tab_selected, pane, selections)| ViewSpec { tab_selected, pane, selections })
        .boxed()
}

pub fn page_spec() -> BoxedStrategy<PageSpec> {
    let m = prop::sample::select(vec![0.0, 0.25, 0.3, 0.7, 0.75, 0.78740157480314965, 0.98425196850393704, 1.0, 0.511811024]).prop_map(Num);
    (
        (
            prop::option::weighted(0.4, prop::sample::select(vec![1u32, 8, 9, 11, 256])),
            0u8..=3,
            prop::option::weighted(0.3, 10u32..=400),
            prop::option::weighted(0.3, 0u32..5),
            prop::option::weighted(0.3, 0u32..5),
            prop::option::weighted(0.2, prop::sample::select(vec![300u32, 600, 1200, 4294967295])),
            prop::option::weighted(0.2, prop::sample::select(vec![300u32, 600, 4294967295])),
        ),
        prop::option::weighted(0.15, prop::collection::vec(any::<u8>(), 1..40)),
        prop::option::weighted(0.4, [m.clone(), m.clone(), m.clone(), m.clone(), m.clone(), m]),
        opt_bool(),
        opt_bool(),
    )
        .prop_map(|((paper_size, orientation, scale, fit_to_height, fit_to_width, horizontal_dpi, vertical_dpi), object_data, margins, horizontal_centered, vertical_centered)| PageSpec {
            paper_size,
            orientation,
            scale,
            fit_to_height,
            fit_to_width,
            horizontal_dpi,
            vertical_dpi,
            object_data,
            margins,
            horizontal_centered,
            vertical_centered,
        })
        .boxed()
}

pub fn header_text(feat: Feat) -> BoxedStrategy<String> {
    prop_oneof![
        4 => prop::sample::select(vec![
            "&L&\"Arial,Bold\"&12Left&C&P of &N&R&D &T",
            "&CTitle <draft> & \"co\"",
            "&L日本語&R&A",
            "&C&&",
            "&Lline1\nline2",
            "x",
            "&R&F 'q'",
        ]).prop_map(|s| s.to_string()),
        3 => plain_text(20).prop_map(|s| {
            let t = s.trim().to_string();
            if t.is_empty() { "&C-".to_string() } else { t }
        }),
        2 => prop::sample::select(if feat.edge_blank_header { vec!["&C Title ", " lead", "trail ", "&L a\n"] } else { vec!["&CTitle", "lead", "trail", "&La"] }).prop_map(|s| s.to_string()),
    ]
    .boxed()
}

pub fn sheet_prot() -> BoxedStrategy<SheetProtSpec> {
    prop::collection::vec(opt_bool(), 16).prop_map(|flags| SheetProtSpec { flags }).boxed()
}

/// A sheet without its name (names are dealt out by `annot_wb`).
pub fn annot_sheet(max: usize, feat: Feat) -> BoxedStrategy<AnnotSheet> {
    let wsac = if feat.ws_active_cell { 0.3 } else { 0.0 };
    (
        (disjoint_rects(max, true), name_specs(max, true), link_specs(max), comment_specs(max)),
        (dv_specs(max), cf_specs(max.min(12)), prop::option::weighted(0.4, any_rect()), prop::option::weighted(0.4, color_spec())),
        (prop::option::weighted(0.6, view_spec()), opt_w(wsac, cell()), page_spec()),
        (opt_text(0.4, header_text(feat)), opt_text(0.4, header_text(feat)), prop::option::weighted(0.4, sheet_prot())),
        (0u8..4, prop::bool::weighted(0.12)),
    )
        .prop_map(move |((merges, names, links, comments), (validations, cond_formats, auto_filter, tab_color), (view, ws_active_cell, page), (header, footer, protection), (state, removed))| AnnotSheet {
            name: String::new(),
            state,
            removed_before_save: removed,
            merges,
            names,
            links,
            comments,
            validations,
            cond_formats,
            auto_filter,
            tab_color,
            view,
            ws_active_cell,
            page,
            header,
            footer,
            protection,
            table: None,
        })
        .boxed()
}

/// Post-processing that makes a generated workbook legal and well defined:
/// * sheet names are dealt out, location markers of internal hyperlinks are resolved;
/// * never all sheets removed; at least one sheet that stays is visible; the active tab is a
///   visible sheet that stays;
/// * (scope, name) pairs of defined names are unique (case-insensitively, as Excel demands).
pub fn normalise(mut wb: AnnotWb, names: Vec<String>, active_raw: u16) -> AnnotWb {
    let n = wb.sheets.len();
    for (s, nm) in wb.sheets.iter_mut().zip(names.into_iter()) {
        s.name = nm;
    }
    let sheet_names: Vec<String> = wb.sheets.iter().map(|s| s.name.clone()).collect();
    for s in wb.sheets.iter_mut() {
        for l in s.links.iter_mut() {
            if l.internal && l.target.starts_with('\u{1}') {
                let parts: Vec<&str> = l.target.splitn(3, '\u{1}').collect();
                let raw: u16 = parts[1].parse().unwrap_or(0);
                l.target = format!("{}{}", quote_sheet(&sheet_names[pick_idx(raw, n)]), parts[2]);
            }
        }
    }
    if wb.sheets.iter().all(|s| s.removed_before_save) {
        wb.sheets[n - 1].removed_before_save = false;
    }
    let kept = wb.kept();
    if kept.iter().all(|i| wb.sheets[*i].state >= 2) {
        let i = kept[pick_idx(active_raw, kept.len())];
        wb.sheets[i].state %= 2;
    }
    let visible: Vec<usize> = (0..kept.len()).filter(|k| wb.sheets[kept[*k]].state < 2).collect();
    wb.active_tab = visible[pick_idx(active_raw, visible.len())] as u32;
    // unique names per scope
    let mut seen: BTreeSet<(usize, String)> = BTreeSet::new();
    let global = usize::MAX;
    let uniq = |scope: usize, name: &mut String, seen: &mut BTreeSet<(usize, String)>| {
        let mut k = 0;
        let base = name.clone();
        while !seen.insert((scope, name.to_lowercase())) {
            k += 1;
            *name = format!("{}_{}", base, k);
        }
    };
    for n in wb.wb_names.iter_mut() {
        n.local = false;
        uniq(global, &mut n.name, &mut seen);
    }
    for (i, s) in wb.sheets.iter_mut().enumerate() {
        for n in s.names.iter_mut() {
            uniq(if n.local { i } else { global }, &mut n.name, &mut seen);
        }
    }
    wb
}

pub fn annot_wb(tier: Tier, feat: Feat) -> BoxedStrategy<AnnotWb> {
    let max = 24usize;
    let _ = tier;
    (
        sheet_names(6, 6),
        prop::collection::vec(annot_sheet(max, feat), 1..=6),
        name_specs(6, false),
        prop::option::weighted(0.4, (opt_bool(), opt_bool(), opt_bool())),
        any::<u16>(),
        any::<bool>(),
    )
        .prop_map(move |(names, sheets, wb_names, prot, active_raw, set_active)| {
            let wb = AnnotWb {
                sheets,
                active_tab: 0,
                set_active,
                wb_names,
                wb_protection: prot.map(|(a, b, c)| WbProtSpec {
                    lock_structure: a,
                    lock_windows: b,
                    lock_revision: c,
                }),
            };
            normalise(wb, names, active_raw)
        })
        .boxed()
}

/// Hyperlink-heavy workbooks and nothing else on the sheets but what shares the relationship
/// numbering with hyperlinks (printer settings, comments): 1..3 sheets, 2..24 links each.
pub fn links_wb(tier: Tier) -> BoxedStrategy<AnnotWb> {
    let _ = tier;
    let target = prop_oneof![
        5 => url().prop_map(|u| (false, u)),
        2 => location().prop_map(|l| (true, l)),
    ];
    let links = (prop::collection::vec((col_pos(), row_pos(), target, opt_text(0.3, nonempty_text(12))), 2..=24), degenerate_url(0.3)).prop_map(|(v, deg)| {
        let mut seen = BTreeSet::new();
        let mut links = v
            .into_iter()
            .filter(|(c, r, _, _)| seen.insert((*c, *r)))
            .map(|(col, row, (internal, target), tooltip)| LinkSpec { col, row, internal, target, tooltip })
            .collect::<Vec<_>>();
        put_degenerate_first(&mut links, deg);
        links
    });
    let table = prop::option::weighted(0.25, (1u32..6, 1u32..6, 0u32..3, 1u32..4).prop_map(|(c, r, w, h)| RectSpec { c1: c, r1: r, c2: c + w, r2: r + h }));
    let sheet = (links, prop::option::weighted(0.3, prop::collection::vec(any::<u8>(), 1..20)), sized_vec((col_pos(), row_pos(), author()).boxed(), 4), table).prop_map(|(links, blob, comments, table)| {
        let mut seen = BTreeSet::new();
        AnnotSheet {
            name: String::new(),
            state: 0,
            removed_before_save: false,
            merges: Vec::new(),
            names: Vec::new(),
            links,
            comments: comments
                .into_iter()
                .filter(|(c, r, _)| seen.insert((*c, *r)))
                .map(|(col, row, author)| CommentSpec {
                    col,
                    row,
                    author,
                    runs: vec!["note".to_string()],
                    with_shape: true,
                })
                .collect(),
            validations: Vec::new(),
            cond_formats: Vec::new(),
            auto_filter: None,
            tab_color: None,
            view: None,
            ws_active_cell: None,
            page: PageSpec { object_data: blob, ..PageSpec::default() },
            header: None,
            footer: None,
            protection: None,
            table,
        }
    });
    (sheet_names(3, 3), prop::collection::vec(sheet, 1..=3), any::<u16>())
        .prop_map(|(names, sheets, active_raw)| {
            let wb = AnnotWb {
                sheets,
                active_tab: 0,
                set_active: false,
                wb_names: Vec::new(),
                wb_protection: None,
            };
            normalise(wb, names, active_raw)
        })
        .boxed()
}
