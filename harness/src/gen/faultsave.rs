//! Fault-injection plumbing for C13 (DESIGN 2.5): a small serialisable workbook spec, the
//! `verif helper fault-save` child process (RLIMIT_FSIZE around exactly one library save),
//! the parent-side runner (plain, or under `strace` with kill / errno injection), a failing
//! `Write + Seek` sink, and a minimal MS-OFFCRYPTO agile decryptor used only to decide
//! whether an encrypted destination is a *complete* file.
use crate::engine::*;
use serde::{Deserialize, Serialize};
use std::collections::BTreeMap;
use std::io::{self, Cursor, Read, Seek, SeekFrom, Write};
use std::path::{Path, PathBuf};
use std::process::{Command, Stdio};
use std::sync::atomic::{AtomicU64, Ordering};
use umya_spreadsheet::structs::XlsxError;
use umya_spreadsheet::Spreadsheet;

pub const PASSWORD: &str = "pw-C13";

#[derive(Debug, Clone, Copy, PartialEq, Eq, Hash, PartialOrd, Ord, Serialize, Deserialize)]
pub enum SaveKind {
    /// writer::xlsx::write
    Xlsx,
    /// writer::xlsx::write_light
    Light,
    /// writer::csv::write (default option)
    Csv,
    /// writer::xlsx::write_with_password
    Password,
}

impl SaveKind {
    pub const ALL: [SaveKind; 4] = [SaveKind::Xlsx, SaveKind::Light, SaveKind::Csv, SaveKind::Password];
    pub fn tag(self) -> &'static str {
        match self {
            SaveKind::Xlsx => "xlsx",
            SaveKind::Light => "light",
            SaveKind::Csv => "csv",
            SaveKind::Password => "password",
        }
    }
    pub fn ext(self) -> &'static str {
        match self {
            SaveKind::Csv => "csv",
            _ => "xlsx",
        }
    }
}

/// Serialisable description of a workbook: `sheets` sheets of `rows` x `cols` cells whose
/// content is a pure function of (seed, sheet, row, col): every fourth cell (by hash) a
/// number, the others alphanumeric strings of `text_len` characters (poorly compressible,
/// so the file size is controlled by rows x cols x text_len).
#[derive(Debug, Clone, PartialEq, Eq, Hash, Serialize, Deserialize)]
pub struct BookSpec {
    pub sheets: u8,
    pub rows: u32,
    pub cols: u32,
    pub text_len: u16,
    pub seed: u32,
}

#[derive(Debug, Clone, PartialEq)]
pub enum CellContent {
    Num(f64),
    Text(String),
}

pub fn cell_content(spec: &BookSpec, sheet: u32, row: u32, col: u32) -> CellContent {
    let mut h = splitmix((spec.seed as u64) ^ ((sheet as u64) << 48) ^ ((row as u64) << 24) ^ col as u64);
    if h % 4 == 0 {
        return CellContent::Num(((h >> 8) % 1_000_000) as f64);
    }
    const AL: &[u8] = b"abcdefghijklmnopqrstuvwxyzABCDEFGHIJKLMNOPQRSTUVWXYZ0123456789";
    let mut s = String::with_capacity(spec.text_len as usize + 1);
    s.push((b'a' + (h % 26) as u8) as char);
    for _ in 0..spec.text_len {
        h = splitmix(h);
        s.push(AL[(h % AL.len() as u64) as usize] as char);
    }
    CellContent::Text(s)
}

/// Build the workbook through the public API only.
pub fn build_book(spec: &BookSpec) -> Spreadsheet {
    let mut book = umya_spreadsheet::new_file();
    for s in 0..spec.sheets.max(1) as u32 {
        if s > 0 {
            book.new_sheet(format!("Sheet{}", s + 1)).expect("new_sheet");
        }
        let ws = book.get_sheet_mut(&(s as usize)).expect("sheet");
        for r in 1..=spec.rows {
            for c in 1..=spec.cols {
                match cell_content(spec, s, r, c) {
                    CellContent::Num(n) => {
                        ws.get_cell_mut((c, r)).set_value_number(n);
                    }
                    CellContent::Text(t) => {
                        ws.get_cell_mut((c, r)).set_value_string(t);
                    }
                }
            }
        }
    }
    book
}

/// The one library call under test (path based).
pub fn save_to_path(book: &Spreadsheet, kind: SaveKind, path: &Path) -> Result<(), XlsxError> {
    match kind {
        SaveKind::Xlsx => umya_spreadsheet::writer::xlsx::write(book, path),
        SaveKind::Light => umya_spreadsheet::writer::xlsx::write_light(book, path),
        SaveKind::Csv => umya_spreadsheet::writer::csv::write(book, path, None),
        SaveKind::Password => umya_spreadsheet::writer::xlsx::write_with_password(book, path, PASSWORD),
    }
}

/// In-memory save of the same workbook (healthy sink).  For `Password` this is the plain
/// package that the encrypted file must decrypt to.
pub fn save_to_vec(book: &Spreadsheet, kind: SaveKind) -> Result<Vec<u8>, XlsxError> {
    let mut cur = Cursor::new(Vec::new());
    match kind {
        SaveKind::Xlsx | SaveKind::Password => umya_spreadsheet::writer::xlsx::write_writer(book, &mut cur)?,
        SaveKind::Light => umya_spreadsheet::writer::xlsx::write_writer_light(book, &mut cur)?,
        SaveKind::Csv => {
            let opt = umya_spreadsheet::structs::CsvWriterOption::default();
            umya_spreadsheet::writer::csv::write_writer(book, &mut cur, &opt)?
        }
    }
    Ok(cur.into_inner())
}

/// Cell content of every sheet as the library reads it back: (sheet name, col, row, value).
pub fn dump_cells(book: &Spreadsheet) -> Vec<(String, u32, u32, String)> {
    let mut out = Vec::new();
    for ws in book.get_sheet_collection() {
        for cell in ws.get_cell_collection() {
            let co = cell.get_coordinate();
            out.push((
                ws.get_name().to_string(),
                *co.get_col_num(),
                *co.get_row_num(),
                cell.get_value().to_string(),
            ));
        }
    }
    out.sort();
    out
}

/// Is `bytes` a complete zip package (every entry readable, CRCs verified by the zip
/// crate) that the library reads back?  Returns the cell dump.
pub fn read_complete_xlsx(bytes: &[u8]) -> Result<Vec<(String, u32, u32, String)>, String> {
    let mut ar = zip::ZipArchive::new(Cursor::new(bytes)).map_err(|e| format!("not a zip archive: {}", e))?;
    if ar.len() == 0 {
        return Err("zip archive without entries".into());
    }
    for i in 0..ar.len() {
        let mut f = ar.by_index(i).map_err(|e| format!("zip entry {}: {}", i, e))?;
        let mut sink = Vec::new();
        f.read_to_end(&mut sink).map_err(|e| format!("zip entry {} ({}): {}", i, f.name(), e))?;
    }
    match guard(|| umya_spreadsheet::reader::xlsx::read_reader(Cursor::new(bytes), true)) {
        Err(p) => Err(format!("library reader panics on it: {}", p.short())),
        Ok(Err(e)) => Err(format!("library reader rejects it: {:?}", e)),
        Ok(Ok(book)) => match guard(|| dump_cells(&book)) {
            Ok(d) => Ok(d),
            Err(p) => Err(format!("dump panics: {}", p.short())),
        },
    }
}

// ---------------------------------------------------------------------------------------
// minimal agile decryptor (ECMA-376 agile encryption as the library writes it:
// AES-256-CBC, SHA-512, segment size 4096)

fn xml_attr(xml: &str, element: &str, attr: &str) -> Option<String> {
    let start = xml.find(&format!("<{}", element))?;
    let rest = &xml[start..];
    let end = rest.find('>')?;
    let tag = &rest[..end];
    let key = format!(" {}=\"", attr);
    let a = tag.find(&key)? + key.len();
    let b = tag[a..].find('"')? + a;
    Some(tag[a..b].to_string())
}

fn sha512(parts: &[&[u8]]) -> Vec<u8> {
    use sha2::Digest;
    let mut h = sha2::Sha512::new();
    for p in parts {
        h.update(p);
    }
    h.finalize().to_vec()
}

fn aes256_cbc_decrypt(key: &[u8], iv: &[u8], data: &[u8]) -> Result<Vec<u8>, String> {
    use aes::cipher::{block_padding::NoPadding, BlockDecryptMut, KeyIvInit};
    type Dec = cbc::Decryptor<aes::Aes256>;
    if data.len() % 16 != 0 {
        return Err(format!("ciphertext length {} is not a multiple of 16", data.len()));
    }
    let dec = Dec::new_from_slices(key, &iv[..16]).map_err(|e| format!("cipher init: {}", e))?;
    let mut buf = data.to_vec();
    dec.decrypt_padded_mut::<NoPadding>(&mut buf).map_err(|e| format!("decrypt: {}", e))?;
    Ok(buf)
}

/// Open a compound file held in memory, check it is structurally valid, read both streams
/// completely and decrypt the package with `password`.
pub fn agile_decrypt(file: &[u8], password: &str) -> Result<Vec<u8>, String> {
    use base64::{engine::general_purpose::STANDARD, Engine as _};
    let mut comp = cfb::CompoundFile::open(Cursor::new(file)).map_err(|e| format!("not a valid compound file: {}", e))?;
    let mut info = Vec::new();
    comp.open_stream("EncryptionInfo")
        .map_err(|e| format!("EncryptionInfo stream: {}", e))?
        .read_to_end(&mut info)
        .map_err(|e| format!("EncryptionInfo stream unreadable: {}", e))?;
    let mut pkg = Vec::new();
    comp.open_stream("EncryptedPackage")
        .map_err(|e| format!("EncryptedPackage stream: {}", e))?
        .read_to_end(&mut pkg)
        .map_err(|e| format!("EncryptedPackage stream unreadable: {}", e))?;
    if info.len() < 8 || pkg.len() < 8 {
        return Err(format!("streams too short: EncryptionInfo {} bytes, EncryptedPackage {} bytes", info.len(), pkg.len()));
    }
    let xml = String::from_utf8_lossy(&info[8..]).to_string();
    let b64 = |el: &str, at: &str| -> Result<Vec<u8>, String> {
        let v = xml_attr(&xml, el, at).ok_or_else(|| format!("EncryptionInfo lacks {}@{}", el, at))?;
        STANDARD.decode(v.as_bytes()).map_err(|e| format!("{}@{} is not base64: {}", el, at, e))
    };
    let data_salt = b64("keyData", "saltValue")?;
    let key_salt = b64("p:encryptedKey", "saltValue")?;
    let enc_key = b64("p:encryptedKey", "encryptedKeyValue")?;
    let spin: u32 = xml_attr(&xml, "p:encryptedKey", "spinCount")
        .and_then(|s| s.parse().ok())
        .ok_or("EncryptionInfo lacks spinCount")?;
    let pw: Vec<u8> = password.encode_utf16().flat_map(|u| u.to_le_bytes()).collect();
    let mut h = sha512(&[&key_salt, &pw]);
    for i in 0..spin {
        h = sha512(&[&i.to_le_bytes(), &h]);
    }
    const BLOCK_KEY: [u8; 8] = [0x14, 0x6e, 0x0b, 0xe7, 0xab, 0xac, 0xd0, 0xd6];
    let derived = sha512(&[&h, &BLOCK_KEY]);
    let package_key = aes256_cbc_decrypt(&derived[..32], &key_salt, &enc_key)?;
    if package_key.len() < 32 {
        return Err("decrypted package key too short".into());
    }
    let total = u64::from_le_bytes(pkg[..8].try_into().unwrap()) as usize;
    let body = &pkg[8..];
    if body.len() < total {
        return Err(format!("EncryptedPackage holds {} bytes but announces {}", body.len(), total));
    }
    let mut out = Vec::with_capacity(body.len());
    for (i, chunk) in body.chunks(4096).enumerate() {
        let iv = sha512(&[&data_salt, &(i as u32).to_le_bytes()]);
        out.extend(aes256_cbc_decrypt(&package_key[..32], &iv[..16], chunk)?);
    }
    out.truncate(total);
    Ok(out)
}

// ---------------------------------------------------------------------------------------
// helper process

#[derive(Debug, Clone, Serialize, Deserialize)]
pub struct HelperArgs {
    pub spec: BookSpec,
    pub kind: SaveKind,
    pub path: String,
    /// RLIMIT_FSIZE (soft) installed around the save
    pub limit: Option<u64>,
}

#[derive(Debug, Clone, PartialEq, Serialize, Deserialize)]
#[serde(tag = "outcome")]
pub enum Outcome {
    #[serde(rename = "ok")]
    Ok,
    #[serde(rename = "err")]
    Err { text: String },
    #[serde(rename = "panic")]
    Panic { site: String, msg: String },
}

/// stdout of the helper is written with `writev` so that the library's own `write`
/// syscalls are the only ones strace counts under that name.
fn emit(line: &str) {
    let bytes = line.as_bytes();
    let mut off = 0usize;
    while off < bytes.len() {
        let iov = libc::iovec {
            iov_base: bytes[off..].as_ptr() as *mut libc::c_void,
            iov_len: bytes.len() - off,
        };
        let n = unsafe { libc::writev(1, &iov, 1) };
        if n <= 0 {
            break;
        }
        off += n as usize;
    }
}

/// `verif helper fault-save <json>`: exit 0 = ran to the end (outcome on stdout),
/// 3 = bad arguments / could not set the limit (harness trouble, never a verdict).
pub fn helper_fault_save(args: &[String]) -> i32 {
    let Some(js) = args.first() else {
        eprintln!("fault-save: missing json argument");
        return 3;
    };
    let a: HelperArgs = match serde_json::from_str(js) {
        Ok(a) => a,
        Err(e) => {
            eprintln!("fault-save: bad arguments: {}", e);
            return 3;
        }
    };
    install_panic_hook();
    let book = match guard(|| build_book(&a.spec)) {
        Ok(b) => b,
        Err(p) => {
            eprintln!("fault-save: cannot build workbook: {}", p.short());
            return 3;
        }
    };
    let path = PathBuf::from(&a.path);
    let mut old = libc::rlimit { rlim_cur: 0, rlim_max: 0 };
    if let Some(n) = a.limit {
        unsafe {
            if libc::getrlimit(libc::RLIMIT_FSIZE, &mut old) != 0 {
                eprintln!("fault-save: getrlimit failed");
                return 3;
            }
            libc::signal(libc::SIGXFSZ, libc::SIG_IGN);
            let new = libc::rlimit { rlim_cur: n as libc::rlim_t, rlim_max: old.rlim_max };
            if libc::setrlimit(libc::RLIMIT_FSIZE, &new) != 0 {
                eprintln!("fault-save: setrlimit failed");
                return 3;
            }
        }
    }
    emit("BEGIN\n");
    let r = guard(|| save_to_path(&book, a.kind, &path));
    if a.limit.is_some() {
        unsafe {
            libc::setrlimit(libc::RLIMIT_FSIZE, &old);
        }
    }
    let outcome = match r {
        Ok(Ok(())) => Outcome::Ok,
        Ok(Err(e)) => Outcome::Err { text: format!("{:?}", e) },
        Err(p) => Outcome::Panic { site: p.site(), msg: p.short() },
    };
    emit(&format!("{}\n", serde_json::to_string(&outcome).unwrap()));
    0
}

// ---------------------------------------------------------------------------------------
// parent side

/// Names given to strace.  `?` = do not complain if the architecture lacks it.
pub const TRACE_SET: &str = "?openat,?open,?creat,write,writev,?pwrite64,close,?rename,?renameat,?renameat2,?unlink,?unlinkat,?fsync,?fdatasync,?ftruncate,lseek";

#[derive(Debug, Clone, PartialEq, Eq, Hash, Serialize, Deserialize)]
pub enum Inject {
    /// SIGKILL on entry of the k-th (1-based, per name) call of `syscall`
    Kill { syscall: String, k: u32 },
    /// the k-th call of `syscall` (and every later one if `persistent`) fails with `errno`
    Errno { syscall: String, k: u32, errno: String, persistent: bool },
}

#[derive(Debug)]
pub struct HelperRun {
    /// the BEGIN marker was seen: the save call was entered
    pub began: bool,
    pub outcome: Option<Outcome>,
    /// helper ended by this signal (9 for an injected kill)
    pub signal: Option<i32>,
    pub exit_code: Option<i32>,
    /// parsed strace log, if traced
    pub trace: Option<Vec<TraceLine>>,
    pub stderr: String,
}

#[derive(Debug, Clone)]
pub struct TraceLine {
    pub name: String,
    pub text: String,
    /// index of this call among calls of the same name (1-based)
    pub k: u32,
    pub after_begin: bool,
    pub is_begin: bool,
}

/// Harness-side trouble (cannot spawn, strace missing, helper misbehaved): never a verdict.
#[derive(Debug)]
pub struct Trouble(pub String);

static COUNTER: AtomicU64 = AtomicU64::new(0);

/// Fresh directory under std::env::temp_dir(), removed on drop.
pub struct TempDir {
    pub path: PathBuf,
}

impl TempDir {
    pub fn new(tag: &str) -> Result<TempDir, Trouble> {
        let n = COUNTER.fetch_add(1, Ordering::Relaxed);
        let path = std::env::temp_dir().join(format!("verif-c13-{}-{}-{}", std::process::id(), tag, n));
        let _ = std::fs::remove_dir_all(&path);
        std::fs::create_dir_all(&path).map_err(|e| Trouble(format!("cannot create {}: {}", path.display(), e)))?;
        Ok(TempDir { path })
    }
}

impl Drop for TempDir {
    fn drop(&mut self) {
        let _ = std::fs::remove_dir_all(&self.path);
    }
}

pub fn parse_trace(log: &str) -> Vec<TraceLine> {
    let mut counts: BTreeMap<String, u32> = BTreeMap::new();
    let mut out = Vec::new();
    let mut begun = false;
    for line in log.lines() {
        // "<pid> name(args..." (with -f -o) or "name(args..."
        let t = line.trim_start();
        let t = t.trim_start_matches(|c: char| c.is_ascii_digit()).trim_start();
        if t.starts_with("+++") || t.starts_with("---") || t.starts_with("<...") {
            continue;
        }
        let Some(p) = t.find('(') else { continue };
        let name = &t[..p];
        if name.is_empty() || !name.chars().all(|c| c.is_ascii_alphanumeric() || c == '_') {
            continue;
        }
        let k = counts.entry(name.to_string()).or_insert(0);
        *k += 1;
        let is_begin = !begun && name == "writev" && t.contains("BEGIN");
        out.push(TraceLine {
            name: name.to_string(),
            text: truncate(t, 400),
            k: *k,
            after_begin: begun,
            is_begin,
        });
        if is_begin {
            begun = true;
        }
    }
    out
}

fn parse_stdout(stdout: &[u8]) -> (bool, Option<Outcome>) {
    let text = String::from_utf8_lossy(stdout);
    let mut began = false;
    let mut outcome = None;
    for l in text.lines() {
        if l == "BEGIN" {
            began = true;
        } else if began && l.starts_with('{') {
            if let Ok(o) = serde_json::from_str::<Outcome>(l) {
                outcome = Some(o);
            }
        }
    }
    (began, outcome)
}

fn exe() -> Result<PathBuf, Trouble> {
    std::env::current_exe().map_err(|e| Trouble(format!("current_exe: {}", e)))
}

/// Run the helper once.  `trace_dir`: where the strace log goes (required when `inject`
/// is given or `trace` is true).
pub fn run_helper(args: &HelperArgs, inject: Option<&Inject>, trace: bool, trace_dir: &Path) -> Result<HelperRun, Trouble> {
    let js = serde_json::to_string(args).unwrap();
    let exe = exe()?;
    let traced = trace || inject.is_some();
    let log = trace_dir.join("strace.log");
    let mut cmd;
    if traced {
        cmd = Command::new("strace");
        cmd.arg("-f").arg("-o").arg(&log).arg("-s").arg("16").arg("-e").arg(format!("trace={}", TRACE_SET));
        match inject {
            Some(Inject::Kill { syscall, k }) => {
                cmd.arg("-e").arg(format!("inject={}:signal=SIGKILL:when={}", syscall, k));
            }
            Some(Inject::Errno { syscall, k, errno, persistent }) => {
                cmd.arg("-e")
                    .arg(format!("inject={}:error={}:when={}{}", syscall, errno, k, if *persistent { "+" } else { "" }));
            }
            None => {}
        }
        cmd.arg(&exe);
    } else {
        cmd = Command::new(&exe);
    }
    cmd.arg("helper").arg("fault-save").arg(&js);
    cmd.stdin(Stdio::null()).stdout(Stdio::piped()).stderr(Stdio::piped());
    cmd.env_remove("VERIF_SHOW_PANICS");
    let out = cmd
        .output()
        .map_err(|e| Trouble(format!("cannot spawn {}: {}", if traced { "strace" } else { "helper" }, e)))?;
    let (began, outcome) = parse_stdout(&out.stdout);
    use std::os::unix::process::ExitStatusExt;
    let mut signal = out.status.signal();
    let mut exit_code = out.status.code();
    // strace re-raises the tracee's fatal signal on itself or exits 128+n
    if traced {
        if let Some(c) = exit_code {
            if c > 128 {
                signal = Some(c - 128);
                exit_code = None;
            }
        }
    }
    let trace = if traced {
        match std::fs::read_to_string(&log) {
            Ok(s) => Some(parse_trace(&s)),
            Err(e) => {
                return Err(Trouble(format!(
                    "strace wrote no log ({}): status {:?} stderr {}",
                    e,
                    out.status,
                    truncate(&String::from_utf8_lossy(&out.stderr), 300)
                )))
            }
        }
    } else {
        None
    };
    Ok(HelperRun {
        began,
        outcome,
        signal,
        exit_code,
        trace,
        stderr: truncate(&String::from_utf8_lossy(&out.stderr), 400),
    })
}

/// Timed-kill fallback (only when strace/ptrace is unavailable): start the helper, wait for
/// BEGIN, spin `spins` times, SIGKILL it.  Not reproducible to the instruction, but the
/// oracle (old or complete new) holds for every instant, so it cannot raise a false alarm.
pub fn run_helper_timed_kill(args: &HelperArgs, spins: u64) -> Result<HelperRun, Trouble> {
    let js = serde_json::to_string(args).unwrap();
    let mut child = Command::new(exe()?)
        .arg("helper")
        .arg("fault-save")
        .arg(&js)
        .stdin(Stdio::null())
        .stdout(Stdio::piped())
        .stderr(Stdio::null())
        .spawn()
        .map_err(|e| Trouble(format!("cannot spawn helper: {}", e)))?;
    let mut so = child.stdout.take().unwrap();
    let mut first = [0u8; 6];
    let began = so.read_exact(&mut first).is_ok() && &first == b"BEGIN\n";
    let mut x = 0u64;
    for i in 0..spins {
        x = std::hint::black_box(splitmix(x ^ i));
    }
    let _ = child.kill();
    let mut rest = Vec::new();
    let _ = so.read_to_end(&mut rest);
    let st = child.wait().map_err(|e| Trouble(format!("wait: {}", e)))?;
    use std::os::unix::process::ExitStatusExt;
    let mut all = first.to_vec();
    all.extend(rest);
    let (_, outcome) = parse_stdout(&all);
    Ok(HelperRun {
        began,
        outcome,
        signal: st.signal(),
        exit_code: st.code(),
        trace: None,
        stderr: String::new(),
    })
}

/// Does strace with injection work here?  (probe: trace `true`-like helper invocation)
pub fn strace_available() -> Result<(), String> {
    if std::env::var("VERIF_C13_NO_STRACE").is_ok() {
        return Err("disabled by VERIF_C13_NO_STRACE".into());
    }
    let exe = std::env::current_exe().map_err(|e| e.to_string())?;
    let out = Command::new("strace")
        .arg("-f")
        .arg("-o")
        .arg("/dev/null")
        .arg("-e")
        .arg(format!("trace={}", TRACE_SET))
        .arg("-e")
        .arg("inject=write:signal=SIGKILL:when=60000")
        .arg(&exe)
        .arg("list")
        .stdin(Stdio::null())
        .stdout(Stdio::piped())
        .stderr(Stdio::piped())
        .output()
        .map_err(|e| format!("cannot run strace: {}", e))?;
    if out.status.success() && String::from_utf8_lossy(&out.stdout).contains("C13") {
        Ok(())
    } else {
        Err(format!(
            "strace probe failed: status {:?}: {}",
            out.status,
            truncate(&String::from_utf8_lossy(&out.stderr), 300)
        ))
    }
}

// ---------------------------------------------------------------------------------------
// failing sink

#[derive(Debug, Clone, Copy, PartialEq, Eq, Hash, Serialize, Deserialize)]
pub enum SinkMode {
    /// call `fail_at` and every later call return Err
    Error,
    /// call `fail_at` accepts only `short_len` bytes, later calls are healthy (not a failure)
    Short,
    /// call `fail_at` accepts `short_len` bytes, every later call returns Err
    ShortThenError,
    /// call `fail_at` and every later call return Ok(0)
    Zero,
    /// call `fail_at` returns ErrorKind::Interrupted once, later calls are healthy
    InterruptedOnce,
}

#[derive(Debug, Clone, PartialEq, Eq, Hash, Serialize, Deserialize)]
pub struct SinkPlan {
    /// a healthy call accepts at most this many bytes (>= 1)
    pub chunk: u32,
    /// 0-based index of the write call at which the fault starts
    pub fail_at: u32,
    pub mode: SinkMode,
    pub short_len: u32,
    /// index into ERR_KINDS
    pub err_kind: u8,
}

pub const ERR_KINDS: [io::ErrorKind; 5] = [
    io::ErrorKind::Other,
    io::ErrorKind::StorageFull,
    io::ErrorKind::PermissionDenied,
    io::ErrorKind::BrokenPipe,
    io::ErrorKind::TimedOut,
];

pub struct FailingSink {
    pub plan: SinkPlan,
    pub inner: Cursor<Vec<u8>>,
    pub calls: u32,
    /// the fault point was reached
    pub fired: bool,
    /// some call returned a hard error (Err other than Interrupted, or Ok(0) for non-empty input)
    pub hard_failed: bool,
}

impl FailingSink {
    pub fn new(plan: SinkPlan) -> FailingSink {
        FailingSink { plan, inner: Cursor::new(Vec::new()), calls: 0, fired: false, hard_failed: false }
    }
    fn err(&mut self) -> io::Error {
        self.hard_failed = true;
        io::Error::new(ERR_KINDS[self.plan.err_kind as usize % ERR_KINDS.len()], "injected sink failure")
    }
}

impl Write for FailingSink {
    fn write(&mut self, buf: &[u8]) -> io::Result<usize> {
        if buf.is_empty() {
            return Ok(0);
        }
        let idx = self.calls;
        self.calls = self.calls.saturating_add(1);
        let healthy = (self.plan.chunk.max(1) as usize).min(buf.len());
        let short = (self.plan.short_len.max(1) as usize).min(healthy);
        let at = idx == self.plan.fail_at;
        let past = idx > self.plan.fail_at;
        if at || past {
            self.fired = true;
        }
        match self.plan.mode {
            SinkMode::Error if at || past => Err(self.err()),
            SinkMode::Zero if at || past => {
                self.hard_failed = true;
                Ok(0)
            }
            SinkMode::ShortThenError if past => Err(self.err()),
            SinkMode::ShortThenError | SinkMode::Short if at => self.inner.write(&buf[..short]),
            SinkMode::InterruptedOnce if at => Err(io::Error::new(io::ErrorKind::Interrupted, "injected EINTR")),
            _ => self.inner.write(&buf[..healthy]),
        }
    }
    fn flush(&mut self) -> io::Result<()> {
        Ok(())
    }
}

impl Seek for FailingSink {
    fn seek(&mut self, pos: SeekFrom) -> io::Result<u64> {
        self.inner.seek(pos)
    }
}
