//! Package assembly (zip + workbook + rels + content types + shared strings) and the
//! comparison of the generator's model with the Python decoder's answer (oracle self-test).
use super::esc::Esc;
use super::sheet::{quote_sheet, render_sheet, Ctx, Sst, Steer};
use super::spec::*;
use super::styles::{render_styles, NS_MAIN};
use super::{a1, MAX_COL};
use crate::engine::{pick_idx, splitmix};
use crate::pyworker::*;
use std::collections::BTreeSet;
use std::io::Write;

const NS_REL: &str = "http://schemas.openxmlformats.org/officeDocument/2006/relationships";
const NS_PKG_REL: &str = "http://schemas.openxmlformats.org/package/2006/relationships";
const XML_DECL: &str = "<?xml version=\"1.0\" encoding=\"UTF-8\" standalone=\"yes\"?>\n";

pub struct Rendered {
    pub bytes: Vec<u8>,
    pub model: Decoded,
    /// generator choices steered away from a known finding (labels)
    pub excluded: Vec<&'static str>,
    /// entity / character references written into attribute values
    pub attr_refs: u32,
    pub shared_above_left: bool,
}

fn rel_type(suffix: &str) -> String {
    format!("{}/{}", NS_REL, suffix)
}

pub fn render(spec: &XlsxSpec, steer: Steer) -> Rendered {
    let mut esc = Esc::new(spec.seed, spec.esc % 3);
    let mut excluded: Vec<&'static str> = Vec::new();
    let styles = render_styles(spec, &mut esc, spec.dirty == Dirty::ImplicitXf0);
    let n_xf = styles.xfs.len();
    let sheet_names: Vec<String> = spec.sheets.iter().map(|s| s.name.clone()).collect();

    let mut sst = Sst { items: Vec::new(), dedupe: spec.sst_dedupe, refs: 0 };
    for k in 0..spec.sst_unused {
        sst.items.push((format!("<si><t>unused{}</t></si>", k), DSstItem { text: format!("unused{}", k), rich: false, phonetic: false }));
    }
    let mut table_counter = 0u32;
    let mut sheet_outs = Vec::new();
    let mut above_left = false;
    for i in 0..spec.sheets.len() {
        let mut cx = Ctx { spec, esc: &mut esc, sst: &mut sst, steer, n_xf, sheet_names: sheet_names.clone(), table_counter: &mut table_counter };
        let so = render_sheet(&mut cx, i);
        excluded.extend(so.excluded.iter().cloned());
        above_left |= so.shared_above_left;
        sheet_outs.push(so);
    }

    // workbook.xml
    let n = spec.sheets.len();
    let mut sheet_ids: Vec<u32> = (1..=n as u32).collect();
    if spec.sheet_ids_shuffled {
        sheet_ids = (0..n as u32).map(|i| 3 + 2 * (n as u32 - i)).collect();
    }
    let active = pick_idx(spec.active, n) as u32;
    let mut wb = String::from(XML_DECL);
    wb.push_str(&format!("<workbook xmlns=\"{}\" xmlns:r=\"{}\">", NS_MAIN, NS_REL));
    wb.push_str(&format!("<bookViews><workbookView xWindow=\"0\" yWindow=\"0\" windowWidth=\"16000\" windowHeight=\"9000\"{}/></bookViews><sheets>", if active > 0 { format!(" activeTab=\"{}\"", active) } else { String::new() }));
    let mut model_sheets: Vec<DSheet> = Vec::new();
    for (i, (s, so)) in spec.sheets.iter().zip(sheet_outs.iter()).enumerate() {
        let state = if i as u32 == active || i == 0 { 0 } else { s.state % 3 };
        let st = ["visible", "hidden", "veryHidden"][state as usize];
        wb.push_str(&format!(
            "<sheet name=\"{}\" sheetId=\"{}\"{} r:id=\"rId{}\"/>",
            esc.attr(&s.name),
            sheet_ids[i],
            if state > 0 { format!(" state=\"{}\"", st) } else { String::new() },
            i + 1
        ));
        let mut m = so.model.clone();
        m.sheet_id = Some(sheet_ids[i]);
        m.state = st.to_string();
        m.rid = Some(format!("rId{}", i + 1));
        m.part = Some(format!("xl/worksheets/sheet{}.xml", i + 1));
        model_sheets.push(m);
    }
    wb.push_str("</sheets>");
    // defined names
    let mut names_m: Vec<DDefinedName> = Vec::new();
    let mut seen: BTreeSet<(String, Option<u32>)> = BTreeSet::new();
    let mut dn = String::new();
    for d in &spec.defined_names {
        let local = d.local.map(|l| pick_idx(l, n) as u32);
        if !seen.insert((d.name.to_lowercase(), local)) {
            continue;
        }
        let sheet = &sheet_names[pick_idx(d.sheet, n)];
        let q = quote_sheet(sheet);
        let (c, r) = (d.col as u32, d.row as u32);
        let text = match d.kind % 4 {
            0 => format!("{}!${}${}", q, super::col_letters(c), r),
            1 => format!("{}!${}${}:${}${}", q, super::col_letters(c), r, super::col_letters((c + 2).min(MAX_COL)), r + 3),
            2 => format!("{}", c * 100 + r),
            _ => format!("SUM({}!${}${}:${}${})", q, super::col_letters(c), r, super::col_letters(c), r + 5),
        };
        let mut attrs = format!("name=\"{}\"", esc.attr(&d.name));
        if let Some(l) = local {
            attrs.push_str(&format!(" localSheetId=\"{}\"", l));
        }
        if d.hidden {
            attrs.push_str(" hidden=\"1\"");
        }
        dn.push_str(&format!("<definedName {}>{}</definedName>", attrs, esc.text(&text)));
        names_m.push(DDefinedName { name: Some(d.name.clone()), local_sheet_id: local, text, hidden: d.hidden });
    }
    if spec.dirty == Dirty::DefNameString {
        let v = ["\"TEXT\"", "\"a b\"", "\"Sheet1!A1\""][(splitmix(spec.seed ^ 0xD2) % 3) as usize];
        dn.push_str(&format!("<definedName name=\"dn_str\">{}</definedName>", esc.text(v)));
        names_m.push(DDefinedName { name: Some("dn_str".into()), local_sheet_id: None, text: v.to_string(), hidden: false });
    }
    if !dn.is_empty() {
        wb.push_str(&format!("<definedNames>{}</definedNames>", dn));
    }
    wb.push_str("<calcPr calcId=\"191029\"/></workbook>");

    // shared strings
    let have_sst = !sst.items.is_empty();
    let mut sst_xml = String::from(XML_DECL);
    let counts = if spec.sst_counts { format!(" count=\"{}\" uniqueCount=\"{}\"", sst.refs.max(1), sst.items.len()) } else { String::new() };
    sst_xml.push_str(&format!("<sst xmlns=\"{}\"{}>", NS_MAIN, counts));
    for (x, _) in &sst.items {
        if spec.pretty {
            sst_xml.push_str("\n  ");
        }
        sst_xml.push_str(x);
    }
    sst_xml.push_str(if spec.pretty { "\n</sst>" } else { "</sst>" });

    // workbook rels
    let prefix = if spec.abs_targets { "/xl/" } else { "" };
    let mut wrels = String::from(XML_DECL);
    wrels.push_str(&format!("<Relationships xmlns=\"{}\">", NS_PKG_REL));
    for i in 0..n {
        wrels.push_str(&format!("<Relationship Id=\"rId{}\" Type=\"{}\" Target=\"{}worksheets/sheet{}.xml\"/>", i + 1, rel_type("worksheet"), prefix, i + 1));
    }
    wrels.push_str(&format!("<Relationship Id=\"rId{}\" Type=\"{}\" Target=\"{}styles.xml\"/>", n + 1, rel_type("styles"), prefix));
    if have_sst {
        wrels.push_str(&format!("<Relationship Id=\"rId{}\" Type=\"{}\" Target=\"{}sharedStrings.xml\"/>", n + 2, rel_type("sharedStrings"), prefix));
    }
    wrels.push_str("</Relationships>");

    // content types
    let mut ct = String::from(XML_DECL);
    ct.push_str("<Types xmlns=\"http://schemas.openxmlformats.org/package/2006/content-types\"><Default Extension=\"rels\" ContentType=\"application/vnd.openxmlformats-package.relationships+xml\"/><Default Extension=\"xml\" ContentType=\"application/xml\"/>");
    ct.push_str("<Override PartName=\"/xl/workbook.xml\" ContentType=\"application/vnd.openxmlformats-officedocument.spreadsheetml.sheet.main+xml\"/>");
    for i in 0..n {
        ct.push_str(&format!("<Override PartName=\"/xl/worksheets/sheet{}.xml\" ContentType=\"application/vnd.openxmlformats-officedocument.spreadsheetml.worksheet+xml\"/>", i + 1));
    }
    ct.push_str("<Override PartName=\"/xl/styles.xml\" ContentType=\"application/vnd.openxmlformats-officedocument.spreadsheetml.styles+xml\"/>");
    if have_sst {
        ct.push_str("<Override PartName=\"/xl/sharedStrings.xml\" ContentType=\"application/vnd.openxmlformats-officedocument.spreadsheetml.sharedStrings+xml\"/>");
    }
    for so in &sheet_outs {
        if let Some((part, _)) = &so.table {
            ct.push_str(&format!("<Override PartName=\"/{}\" ContentType=\"application/vnd.openxmlformats-officedocument.spreadsheetml.table+xml\"/>", part));
        }
    }
    ct.push_str("</Types>");

    let root_rels = format!(
        "{}<Relationships xmlns=\"{}\"><Relationship Id=\"rId1\" Type=\"{}\" Target=\"xl/workbook.xml\"/></Relationships>",
        XML_DECL,
        NS_PKG_REL,
        rel_type("officeDocument")
    );

    // zip
    let mut parts: Vec<(String, Vec<u8>)> = Vec::new();
    parts.push(("[Content_Types].xml".into(), ct.into_bytes()));
    parts.push(("_rels/.rels".into(), root_rels.into_bytes()));
    parts.push(("xl/workbook.xml".into(), wb.into_bytes()));
    parts.push(("xl/_rels/workbook.xml.rels".into(), wrels.into_bytes()));
    for (i, so) in sheet_outs.iter().enumerate() {
        parts.push((format!("xl/worksheets/sheet{}.xml", i + 1), so.xml.clone().into_bytes()));
        if !so.rels.is_empty() {
            let mut r = String::from(XML_DECL);
            r.push_str(&format!("<Relationships xmlns=\"{}\">", NS_PKG_REL));
            for (id, ty, target, external) in &so.rels {
                r.push_str(&format!(
                    "<Relationship Id=\"{}\" Type=\"{}\" Target=\"{}\"{}/>",
                    id,
                    rel_type(ty),
                    esc.attr(target),
                    if *external { " TargetMode=\"External\"" } else { "" }
                ));
            }
            r.push_str("</Relationships>");
            parts.push((format!("xl/worksheets/_rels/sheet{}.xml.rels", i + 1), r.into_bytes()));
        }
        if let Some((part, x)) = &so.table {
            parts.push((part.clone(), x.clone().into_bytes()));
        }
    }
    parts.push(("xl/styles.xml".into(), styles.xml.clone().into_bytes()));
    if have_sst {
        parts.push(("xl/sharedStrings.xml".into(), sst_xml.into_bytes()));
    }
    let method = if spec.stored { zip::CompressionMethod::Stored } else { zip::CompressionMethod::Deflated };
    let opts = zip::write::SimpleFileOptions::default().compression_method(method);
    let mut zw = zip::ZipWriter::new(std::io::Cursor::new(Vec::new()));
    let mut dirs: BTreeSet<String> = BTreeSet::new();
    let mut names: Vec<String> = Vec::new();
    for (name, data) in &parts {
        if spec.dir_entries {
            if let Some(pos) = name.rfind('/') {
                let d = format!("{}/", &name[..pos]);
                if dirs.insert(d.clone()) {
                    zw.add_directory(d.trim_end_matches('/'), opts).expect("zip dir");
                }
            }
        }
        zw.start_file(name.as_str(), opts).expect("zip start_file");
        zw.write_all(data).expect("zip write");
        names.push(name.clone());
    }
    let bytes = zw.finish().expect("zip finish").into_inner();
    names.sort();

    let model = Decoded {
        workbook_part: "xl/workbook.xml".into(),
        parts: names,
        active_tab: active,
        date1904: false,
        sheets: model_sheets,
        defined_names: names_m,
        styles: DStyles { part: Some("xl/styles.xml".into()), counts: styles.counts.clone(), cell_xfs: styles.xfs.clone(), num_fmts: styles.num_fmts.clone() },
        shared_strings: DSst {
            part: if have_sst { Some("xl/sharedStrings.xml".into()) } else { None },
            count: if have_sst && spec.sst_counts { Some(sst.refs.max(1)) } else { None },
            unique_count: if have_sst && spec.sst_counts { Some(sst.items.len() as u32) } else { None },
            si: sst.items.len() as u32,
            items: sst.items.iter().map(|(_, m)| m.clone()).collect(),
        },
        strings: None,
    };
    let _ = a1;
    Rendered { bytes, model, excluded, attr_refs: esc.attr_refs, shared_above_left: above_left }
}

/// Where the Python decoder's answer differs from the generator's model (None = agree).
/// Compared: everything C03 compares plus the encoding facts the comparator keys on.
pub fn model_diff(model: &Decoded, py: &Decoded) -> Option<String> {
    if model.sheets.len() != py.sheets.len() {
        return Some(format!("sheet count {} vs {}", model.sheets.len(), py.sheets.len()));
    }
    if model.active_tab != py.active_tab {
        return Some(format!("active tab {} vs {}", model.active_tab, py.active_tab));
    }
    for (m, p) in model.sheets.iter().zip(py.sheets.iter()) {
        if m.name != p.name || m.state != p.state || m.sheet_id != p.sheet_id || p.kind != "worksheet" || m.part != p.part {
            return Some(format!("sheet header {:?}/{}/{:?}/{:?} vs {:?}/{}/{:?}/{:?} kind {}", m.name, m.state, m.sheet_id, m.part, p.name, p.state, p.sheet_id, p.part, p.kind));
        }
        if m.cells.len() != p.cells.len() {
            return Some(format!("sheet {:?}: {} cells vs {}", m.name, m.cells.len(), p.cells.len()));
        }
        for (a, b) in m.cells.iter().zip(p.cells.iter()) {
            let same = a.r == b.r
                && a.row == b.row
                && a.col == b.col
                && a.has_r == b.has_r
                && a.t == b.t
                && a.s == b.s
                && a.has_s == b.has_s
                && a.kind == b.kind
                && a.value == b.value
                && a.bits == b.bits
                && a.formula == b.formula
                && a.f_type == b.f_type
                && a.f_si == b.f_si
                && a.f_master == b.f_master
                && !b.f_uncertain
                && !b.ws_ambiguous
                && a.runs == b.runs
                && a.phonetic == b.phonetic
                && a.sst_index == b.sst_index
                && a.f_anchor == b.f_anchor;
            if !same {
                return Some(format!("sheet {:?} cell {}: model {:?} vs python {:?}", m.name, a.r, a, b));
            }
        }
        if m.hyperlinks != p.hyperlinks {
            return Some(format!("sheet {:?} hyperlinks: {:?} vs {:?}", m.name, m.hyperlinks, p.hyperlinks));
        }
        if m.tables != p.tables {
            return Some(format!("sheet {:?} tables: {:?} vs {:?}", m.name, m.tables, p.tables));
        }
        if m.merged != p.merged {
            return Some(format!("sheet {:?} merged: {:?} vs {:?}", m.name, m.merged, p.merged));
        }
        if m.cols != p.cols {
            return Some(format!("sheet {:?} cols: {:?} vs {:?}", m.name, m.cols, p.cols));
        }
        if m.rows != p.rows {
            return Some(format!("sheet {:?} rows: {:?} vs {:?}", m.name, m.rows, p.rows));
        }
    }
    if model.defined_names != py.defined_names {
        return Some(format!("defined names: {:?} vs {:?}", model.defined_names, py.defined_names));
    }
    if model.styles.cell_xfs != py.styles.cell_xfs {
        for (i, (a, b)) in model.styles.cell_xfs.iter().zip(py.styles.cell_xfs.iter()).enumerate() {
            if a != b {
                return Some(format!("cellXfs[{}]: model {:?} vs python {:?}", i, a, b));
            }
        }
        return Some(format!("cellXfs count {} vs {}", model.styles.cell_xfs.len(), py.styles.cell_xfs.len()));
    }
    if model.styles.num_fmts != py.styles.num_fmts {
        return Some(format!("numFmts: {:?} vs {:?}", model.styles.num_fmts, py.styles.num_fmts));
    }
    let (a, b) = (&model.styles.counts, &py.styles.counts);
    if (a.num_fmts, a.fonts, a.fills, a.borders, a.cell_style_xfs, a.cell_xfs, a.cell_styles, a.dxfs) != (b.num_fmts, b.fonts, b.fills, b.borders, b.cell_style_xfs, b.cell_xfs, b.cell_styles, b.dxfs) {
        return Some(format!("style table sizes: {:?} vs {:?}", a, b));
    }
    let (a, b) = (&model.shared_strings, &py.shared_strings);
    if a.part != b.part || a.count != b.count || a.unique_count != b.unique_count || a.si != b.si || a.items != b.items {
        return Some(format!("shared strings: model part {:?} count {:?}/{:?} si {} vs python part {:?} count {:?}/{:?} si {} (items equal: {})", a.part, a.count, a.unique_count, a.si, b.part, b.count, b.unique_count, b.si, a.items == b.items));
    }
    if model.parts != py.parts {
        return Some(format!("part list: {:?} vs {:?}", model.parts, py.parts));
    }
    None
}
