//! The MEANING of a generated xlsx file plus the encoding choices (serialisable case).
use crate::engine::Tier;
use crate::gen::text;
use proptest::prelude::*;
use serde::{Deserialize, Serialize};

/// One single known-finding feature a "dirty" case exercises (None = clean file).
#[derive(Debug, Clone, Copy, Serialize, Deserialize, PartialEq, Eq)]
pub enum Dirty {
    None,
    /// a t="d" cell
    DateCell,
    /// one row whose cells have no r attribute
    NoR,
    /// inline string that looks like a number / boolean / error
    InlineGuess,
    /// inline string with rich runs
    InlineRich,
    /// shared string with _xHHHH_ escapes
    XString,
    /// literal CR LF inside a <t>
    CrLf,
    /// cellXfs[0] is not the default and a cell has no s attribute
    ImplicitXf0,
    /// shared formula written with blanks around operators
    SharedBlank,
    /// shared formula with a quoted sheet name
    SharedQuotedSheet,
    /// shared formula with a string containing a doubled quote
    SharedDoubledQuote,
    /// shared formula with a reference above / left of the anchor
    SharedAboveLeft,
    /// defined name whose value is a string constant
    DefNameString,
}

pub const ALL_DIRTY: [Dirty; 12] = [
    Dirty::DateCell,
    Dirty::NoR,
    Dirty::InlineGuess,
    Dirty::InlineRich,
    Dirty::XString,
    Dirty::CrLf,
    Dirty::ImplicitXf0,
    Dirty::SharedBlank,
    Dirty::SharedQuotedSheet,
    Dirty::SharedDoubledQuote,
    Dirty::SharedAboveLeft,
    Dirty::DefNameString,
];

#[derive(Debug, Clone, Serialize, Deserialize, PartialEq)]
pub struct RunSpec {
    pub text: String,
    pub bold: bool,
    pub italic: bool,
    pub font: Option<String>,
    pub size: Option<u8>,
    pub rgb: Option<String>,
}

#[derive(Debug, Clone, Serialize, Deserialize, PartialEq)]
pub enum Content {
    Blank,
    Text(String),
    Rich(Vec<RunSpec>),
    /// a numeric literal exactly as written into <v>
    Number(String),
    Bool(bool),
    /// index into ERRORS
    Error(u8),
}

pub const ERRORS: [&str; 7] = ["#NULL!", "#DIV/0!", "#VALUE!", "#REF!", "#NAME?", "#NUM!", "#N/A"];

#[derive(Debug, Clone, Serialize, Deserialize, PartialEq)]
pub struct CellSpec {
    /// raw pick of the column (mapped monotonically onto the column set)
    pub col: u16,
    pub content: Content,
    /// encoding choice among those the format allows for the content
    pub enc: u8,
    /// raw pick of the cellXfs index; 0 = no s attribute
    pub xf: u16,
    /// ordinary formula text (kept verbatim by any reader)
    pub formula: Option<String>,
    /// write xml:space="preserve" even when not needed
    pub space: bool,
    /// write <v></v> / <t></t> instead of the self-closing form for empty content
    pub long_empty: bool,
}

#[derive(Debug, Clone, Serialize, Deserialize, PartialEq)]
pub struct RowSpec {
    pub row: u16,
    pub cells: Vec<CellSpec>,
    pub spans: bool,
    pub style: Option<u16>,
    pub height: Option<u8>,
    pub hidden: bool,
}

#[derive(Debug, Clone, Serialize, Deserialize, PartialEq)]
pub enum TermSpec {
    Ref { dx: i8, dy: i8, ac: bool, ar: bool },
    Range { dx: i8, dy: i8, w: u8, h: u8, flags: u8 },
    Num(i16),
    Str(String),
    Func { name: u8, dx: i8, dy: i8, w: u8, h: u8, flags: u8 },
    SheetRef { sheet: u16, dx: i8, dy: i8, ac: bool, ar: bool },
    WholeCols { dx: i8, w: u8, flags: u8 },
}

#[derive(Debug, Clone, Serialize, Deserialize, PartialEq)]
pub struct SharedSpec {
    pub col: u8,
    pub w: u8,
    pub h: u8,
    /// bit k = offset (k % w, k / w) is a member; the master (bit 0) always is
    pub members: u16,
    pub terms: Vec<TermSpec>,
    pub ops: Vec<u8>,
    /// ref attribute covers the whole rectangle (else the bounding box of the members)
    pub ref_whole: bool,
    /// cached values are written (else <f> only)
    pub cached: bool,
}

#[derive(Debug, Clone, Serialize, Deserialize, PartialEq)]
pub enum LinkSpec {
    External { url: String },
    Internal { sheet: u16, cell: String },
    InternalName { name: String },
}

#[derive(Debug, Clone, Serialize, Deserialize, PartialEq)]
pub struct HyperlinkSpec {
    pub link: LinkSpec,
    pub tooltip: Option<String>,
    pub display: Option<String>,
}

#[derive(Debug, Clone, Serialize, Deserialize, PartialEq)]
pub struct TableSpec {
    pub columns: Vec<String>,
    pub header_style: bool,
}

#[derive(Debug, Clone, Serialize, Deserialize, PartialEq)]
pub struct ColSpec {
    pub min: u16,
    pub span: u8,
    pub width: u8,
    pub style: Option<u16>,
    pub hidden: bool,
}

#[derive(Debug, Clone, Serialize, Deserialize, PartialEq)]
pub struct SheetSpec {
    pub name: String,
    /// 0 visible, 1 hidden, 2 veryHidden (the first sheet is always visible)
    pub state: u8,
    pub rows: Vec<RowSpec>,
    pub shared: Vec<SharedSpec>,
    pub links: Vec<HyperlinkSpec>,
    pub table: Option<TableSpec>,
    pub cols: Vec<ColSpec>,
    pub merges: Vec<(u8, u8, u8, u8)>,
    pub dimension: bool,
    pub views: bool,
}

#[derive(Debug, Clone, Serialize, Deserialize, PartialEq)]
pub enum ColorSpec {
    None,
    Rgb(String),
    Theme(u8),
    Indexed(u8),
}

#[derive(Debug, Clone, Serialize, Deserialize, PartialEq)]
pub struct FontSpec {
    pub name: String,
    pub size: u8,
    pub half: bool,
    pub bold: bool,
    pub italic: bool,
    pub strike: bool,
    pub underline: u8,
    pub color: ColorSpec,
}

#[derive(Debug, Clone, Serialize, Deserialize, PartialEq)]
pub struct FillSpec {
    pub pattern: u8,
    pub fg: ColorSpec,
    pub bg: ColorSpec,
}

#[derive(Debug, Clone, Serialize, Deserialize, PartialEq)]
pub struct BorderSpec {
    /// style picks for left, right, top, bottom, diagonal
    pub sides: [u8; 5],
    pub color: ColorSpec,
}

#[derive(Debug, Clone, Serialize, Deserialize, PartialEq)]
pub struct XfSpec {
    pub num_fmt: u16,
    pub font: u16,
    pub fill: u16,
    pub border: u16,
    pub xf_id: u16,
    /// write applyX="1" for the non-default components
    pub flags: bool,
    /// horizontal pick, vertical pick, wrap, rotation
    pub align: Option<(u8, u8, bool, u8)>,
    /// locked, hidden as written (None = attribute absent)
    pub prot: Option<(Option<bool>, Option<bool>)>,
}

#[derive(Debug, Clone, Serialize, Deserialize, PartialEq)]
pub struct DefNameSpec {
    pub name: String,
    /// None = workbook scope, Some(raw pick of the sheet)
    pub local: Option<u16>,
    /// 0 cell, 1 range, 2 number constant, 3 function
    pub kind: u8,
    pub sheet: u16,
    pub col: u8,
    pub row: u8,
    pub hidden: bool,
}

#[derive(Debug, Clone, Serialize, Deserialize, PartialEq)]
pub struct XlsxSpec {
    /// seed of the escape / encoding choice stream
    pub seed: u64,
    /// 0 minimal escapes, 1 named entities, 2 mixed named / decimal / hex references
    pub esc: u8,
    /// whitespace between elements
    pub pretty: bool,
    pub sheets: Vec<SheetSpec>,
    pub active: u16,
    pub fonts: Vec<FontSpec>,
    pub fills: Vec<FillSpec>,
    pub borders: Vec<BorderSpec>,
    pub num_fmts: Vec<String>,
    pub style_xfs: u8,
    pub xfs: Vec<XfSpec>,
    pub defined_names: Vec<DefNameSpec>,
    pub sst_counts: bool,
    pub sst_unused: u8,
    pub sst_dedupe: bool,
    pub abs_targets: bool,
    pub dir_entries: bool,
    pub stored: bool,
    pub sheet_ids_shuffled: bool,
    pub dirty: Dirty,
}

// ---------------------------------------------------------------------------------------
// strategies

fn cell_text() -> BoxedStrategy<String> {
    prop_oneof![
        6 => text::plain_text(24),
        2 => "[A-Za-z]{1,10}".prop_map(|s| s),
        1 => prop::sample::select(vec!["a&b", "<tag>", "x > y", "\"q\"", "it's", "&amp;", "&#65;", "]]>", "a\rb", "tab\there", "line\nbreak", "  lead", "trail  ", "é日本😀", "=A1", "'123"]).prop_map(|s| s.to_string()),
    ]
    .boxed()
}

pub fn number_literal() -> BoxedStrategy<String> {
    prop_oneof![
        4 => prop::sample::select(vec![
            "0", "1", "-1", "42", "1000000", "123456789012345678", "0.1", "-2.5", "3.14159", "0.30000000000000004", "0.10", "1.0",
            "1E3", "1e3", "1.5E-7", "2E+10", "1.7976931348623157E308", "5E-324", "2.2250738585072014E-308", "-0", "-0.0", "1E-5",
            "12345678901234567890", "4.9406564584124654E-324", "9007199254740993", "0.1000000000000000055511151231257827", "1.0E+3", "100", "45000.5"
        ]).prop_map(|s| s.to_string()),
        3 => (-999_999i64..999_999, -20i32..20, any::<bool>(), any::<bool>()).prop_map(|(m, e, upper, plus)| {
            let sign = if e >= 0 && plus { "+" } else { "" };
            format!("{}{}{}{}", m, if upper { "E" } else { "e" }, sign, e)
        }),
        3 => any::<u64>().prop_map(|b| {
            let f = f64::from_bits(b);
            let f = if f.is_finite() { f } else { 1.5 };
            format!("{:E}", f)
        }),
        2 => any::<u64>().prop_map(|b| {
            let f = f64::from_bits(b >> 2 | 0x3000_0000_0000_0000);
            let f = if f.is_finite() { f } else { 2.5 };
            format!("{}", f)
        }),
        2 => (-100000i32..100000, 0u32..6).prop_map(|(m, d)| format!("{:.*}", d as usize, m as f64 / 7.0)),
    ]
    .boxed()
}

fn run_spec() -> BoxedStrategy<RunSpec> {
    (
        cell_text(),
        any::<bool>(),
        any::<bool>(),
        prop::option::of(prop::sample::select(vec!["Arial", "Calibri", "ＭＳ Ｐゴシック", "B&H Lucida"]).prop_map(|s| s.to_string())),
        prop::option::of(8u8..20),
        prop::option::of(prop::sample::select(vec!["FFFF0000", "FF00FF00", "FF123456"]).prop_map(|s| s.to_string())),
    )
        .prop_map(|(text, bold, italic, font, size, rgb)| RunSpec { text: if text.is_empty() { "r".into() } else { text }, bold, italic, font, size, rgb })
        .boxed()
}

fn content() -> BoxedStrategy<Content> {
    prop_oneof![
        1 => Just(Content::Blank),
        6 => cell_text().prop_map(Content::Text),
        2 => prop::collection::vec(run_spec(), 1..=3).prop_map(Content::Rich),
        5 => number_literal().prop_map(Content::Number),
        2 => any::<bool>().prop_map(Content::Bool),
        2 => (0u8..7).prop_map(Content::Error),
    ]
    .boxed()
}

pub fn plain_formula() -> BoxedStrategy<String> {
    prop_oneof![
        4 => prop::sample::select(vec![
            "A1+B2", "SUM(A1:B3)", "IF(A1>0,\"yes\",\"no\")", "'My Sheet'!A1", "A1&\"<&>\"", "\"a\"\"b\"", " A1 + B1 ", "{1,2;3,4}",
            "Table1[[#This Row],[x]]", "$A$1*2", "A:A", "1:1", "SUM($A:$B)", "-A1%", "A1<>B1", "A1<=B1", "'It''s'!$B$2", "NOW()", "1E3+1",
            "INDEX(A1:C3,2,2)", "Sheet2!A1:B2 Sheet2!B1:C3", "+A1", "[1]Sheet1!A1", "#REF!+1", "TRUE"
        ]).prop_map(|s| s.to_string()),
        2 => (1u32..30, 1u32..30, 1u32..30, 1u32..30).prop_map(|(a, b, c, d)| format!("{}+{}", super::a1(a, b), super::a1(c, d))),
        1 => (1u32..30, 1u32..30, text::plain_text(6)).prop_map(|(a, b, t)| format!("{}&\"{}\"", super::a1(a, b), t.replace('"', "\"\"").replace('\r', ""))),
    ]
    .boxed()
}

fn cell_spec() -> BoxedStrategy<CellSpec> {
    (any::<u16>(), content(), any::<u8>(), prop_oneof![3 => Just(0u16), 3 => any::<u16>()], prop::option::weighted(0.25, plain_formula()), any::<bool>(), any::<bool>())
        .prop_map(|(col, content, enc, xf, formula, space, long_empty)| CellSpec { col, content, enc, xf, formula, space, long_empty })
        .boxed()
}

fn row_spec() -> BoxedStrategy<RowSpec> {
    (any::<u16>(), prop::collection::vec(cell_spec(), 0..=6), any::<bool>(), prop::option::weighted(0.2, any::<u16>()), prop::option::weighted(0.2, 5u8..60), prop::bool::weighted(0.1))
        .prop_map(|(row, cells, spans, style, height, hidden)| RowSpec { row, cells, spans, style, height, hidden })
        .boxed()
}

fn term_spec() -> BoxedStrategy<TermSpec> {
    let d = -3i8..=3;
    prop_oneof![
        6 => (d.clone(), d.clone(), any::<bool>(), any::<bool>()).prop_map(|(dx, dy, ac, ar)| TermSpec::Ref { dx, dy, ac, ar }),
        2 => (d.clone(), d.clone(), 0u8..3, 0u8..3, 0u8..16).prop_map(|(dx, dy, w, h, flags)| TermSpec::Range { dx, dy, w, h, flags }),
        2 => (-50i16..1000).prop_map(TermSpec::Num),
        1 => "[a-z]{0,4}".prop_map(TermSpec::Str),
        3 => (0u8..4, d.clone(), d.clone(), 0u8..3, 0u8..3, 0u8..16).prop_map(|(name, dx, dy, w, h, flags)| TermSpec::Func { name, dx, dy, w, h, flags }),
        2 => (any::<u16>(), d.clone(), d.clone(), any::<bool>(), any::<bool>()).prop_map(|(sheet, dx, dy, ac, ar)| TermSpec::SheetRef { sheet, dx, dy, ac, ar }),
    ]
    .boxed()
}

fn shared_spec() -> BoxedStrategy<SharedSpec> {
    (0u8..12, 1u8..=4, 1u8..=4, any::<u16>(), prop::collection::vec(term_spec(), 1..=3), prop::collection::vec(0u8..9, 2), any::<bool>(), prop::bool::weighted(0.8))
        .prop_map(|(col, w, h, members, terms, ops, ref_whole, cached)| SharedSpec { col, w, h, members, terms, ops, ref_whole, cached })
        .boxed()
}

fn url() -> BoxedStrategy<String> {
    prop_oneof![
        3 => prop::sample::select(vec![
            "https://example.com/", "https://example.com/a?x=1&y=2", "http://example.com/it's", "https://example.com/%20space#frag",
            "mailto:a@example.com?subject=Hi&body=x", "https://例え.jp/パス?q=日本&r=é", "file:///C:/Users/a%20b/c.xlsx", "https://example.com/?q=\"quoted\"&lt=<3",
            "other.xlsx", "https://example.com/a&amp;b"
        ]).prop_map(|s| s.to_string()),
        1 => "[a-z]{1,8}".prop_map(|s| format!("https://{}.example.org/?a=1&b={}", s, s)),
    ]
    .boxed()
}

fn link_spec() -> BoxedStrategy<HyperlinkSpec> {
    let link = prop_oneof![
        3 => url().prop_map(|url| LinkSpec::External { url }),
        2 => (any::<u16>(), (1u32..50, 1u32..50)).prop_map(|(sheet, (c, r))| LinkSpec::Internal { sheet, cell: super::a1(c, r) }),
        1 => "[A-Za-z_][A-Za-z0-9_]{0,6}".prop_map(|name| LinkSpec::InternalName { name: format!("n_{}", name) }),
    ];
    (link, prop::option::weighted(0.3, text::nonempty_text(10)), prop::option::weighted(0.2, text::nonempty_text(10)))
        .prop_map(|(link, tooltip, display)| HyperlinkSpec { link, tooltip: tooltip.map(clean_attr), display: display.map(clean_attr) })
        .boxed()
}

/// attribute text: no control characters other than TAB / LF (written as references)
fn clean_attr(s: String) -> String {
    s.chars().filter(|c| *c != '\r').collect()
}

fn column_name() -> BoxedStrategy<String> {
    prop_oneof![
        3 => "[A-Za-z][A-Za-z0-9 ]{0,8}".prop_map(|s| s.trim().to_string()),
        3 => prop::sample::select(vec!["A&B", "<col>", "\"q\"", "it's", "Größe", "日本 語", "a>b", "1", "x&amp;y", "P&L", "50%", "#", "a,b"]).prop_map(|s| s.to_string()),
    ]
    .boxed()
}

fn table_spec() -> BoxedStrategy<TableSpec> {
    (prop::collection::vec(column_name(), 1..=4), any::<bool>())
        .prop_map(|(cols, header_style)| {
            let mut out: Vec<String> = Vec::new();
            for (i, c) in cols.into_iter().enumerate() {
                let c = if c.is_empty() { format!("c{}", i) } else { c };
                if out.iter().any(|o| o.to_lowercase() == c.to_lowercase()) {
                    out.push(format!("{}{}", c, i + 2));
                } else {
                    out.push(c);
                }
            }
            TableSpec { columns: out, header_style }
        })
        .boxed()
}

fn col_spec() -> BoxedStrategy<ColSpec> {
    (any::<u16>(), 0u8..5, 3u8..40, prop::option::weighted(0.4, any::<u16>()), prop::bool::weighted(0.1))
        .prop_map(|(min, span, width, style, hidden)| ColSpec { min, span, width, style, hidden })
        .boxed()
}

fn sheet_spec(t: Tier) -> BoxedStrategy<SheetSpec> {
    let rows = t.pick(6usize, 12usize);
    (
        (0u8..3, prop::collection::vec(row_spec(), 0..=rows), prop::collection::vec(shared_spec(), 0..=2), prop::collection::vec(link_spec(), 0..=3)),
        (prop::option::weighted(0.3, table_spec()), prop::collection::vec(col_spec(), 0..=3), prop::collection::vec((0u8..6, 0u8..6, 0u8..3, 0u8..3), 0..=2), any::<bool>(), any::<bool>()),
    )
        .prop_map(|((state, rows, shared, links), (table, cols, merges, dimension, views))| SheetSpec {
            name: String::new(),
            state,
            rows,
            shared,
            links,
            table,
            cols,
            merges,
            dimension,
            views,
        })
        .boxed()
}

fn color_spec() -> BoxedStrategy<ColorSpec> {
    prop_oneof![
        2 => Just(ColorSpec::None),
        3 => prop::sample::select(vec!["FFFF0000", "FF00B050", "FF1F4E79", "80ABCDEF", "FF000000"]).prop_map(|s| ColorSpec::Rgb(s.to_string())),
        2 => (0u8..10).prop_map(ColorSpec::Theme),
        1 => (8u8..64).prop_map(ColorSpec::Indexed),
    ]
    .boxed()
}

fn font_spec() -> BoxedStrategy<FontSpec> {
    (
        prop::sample::select(vec!["Calibri", "Arial", "Times New Roman", "ＭＳ Ｐゴシック", "B&H Lucida", "O'Neil \"Quote\"", "Font<1>"]),
        6u8..30,
        any::<bool>(),
        any::<bool>(),
        any::<bool>(),
        prop::bool::weighted(0.2),
        0u8..3,
        color_spec(),
    )
        .prop_map(|(name, size, half, bold, italic, strike, underline, color)| FontSpec { name: name.to_string(), size, half, bold, italic, strike, underline, color })
        .boxed()
}

fn xf_spec() -> BoxedStrategy<XfSpec> {
    (
        any::<u16>(),
        any::<u16>(),
        any::<u16>(),
        any::<u16>(),
        any::<u16>(),
        any::<bool>(),
        prop::option::weighted(0.4, (0u8..8, 0u8..5, any::<bool>(), prop::sample::select(vec![0u8, 0, 45, 90, 135, 180]))),
        prop::option::weighted(0.25, (prop::option::of(any::<bool>()), prop::option::of(any::<bool>()))),
    )
        .prop_map(|(num_fmt, font, fill, border, xf_id, flags, align, prot)| XfSpec { num_fmt, font, fill, border, xf_id, flags, align, prot })
        .boxed()
}

pub const NUM_FMT_CODES: [&str; 10] = [
    "0.000",
    "\"$\"#,##0.00",
    "yyyy\\-mm\\-dd",
    "[Red]0.0;[Blue]-0.0",
    "#,##0 \"<x>\"",
    "0.0 \"&\"",
    "@ \"'\"",
    "[$€-407]#,##0.00",
    "0.00\\ \"kg\"",
    "hh:mm:ss\\ AM/PM",
];

fn def_name_spec() -> BoxedStrategy<DefNameSpec> {
    (
        prop_oneof![
            3 => "[A-Za-z_][A-Za-z0-9_.]{2,8}".prop_map(|s| format!("n_{}", s)),
            2 => prop::sample::select(vec!["名前", "Größe", "_xlnm.Print_Area", "rate.2024", "\\back", "é_total"]).prop_map(|s| s.to_string()),
        ],
        prop::option::weighted(0.3, any::<u16>()),
        0u8..4,
        any::<u16>(),
        1u8..20,
        1u8..20,
        prop::bool::weighted(0.1),
    )
        .prop_map(|(name, local, kind, sheet, col, row, hidden)| DefNameSpec { name, local, kind, sheet, col, row, hidden })
        .boxed()
}

/// The generator: clean files when `dirty` is `Dirty::None`.
pub fn xlsx_spec(t: Tier, dirty: BoxedStrategy<Dirty>) -> BoxedStrategy<XlsxSpec> {
    let nsheets = 1usize..=3;
    (
        (any::<u64>(), 0u8..3, prop::bool::weighted(0.2), nsheets.prop_flat_map(move |n| (text::sheet_names(n, n), prop::collection::vec(sheet_spec(t), n..=n))), any::<u16>()),
        (
            prop::collection::vec(font_spec(), 0..=3),
            prop::collection::vec((1u8..8, color_spec(), color_spec()).prop_map(|(pattern, fg, bg)| FillSpec { pattern, fg, bg }), 0..=2),
            prop::collection::vec((prop::array::uniform5(0u8..6), color_spec()).prop_map(|(sides, color)| BorderSpec { sides, color }), 0..=2),
            prop::collection::vec(prop::sample::select(NUM_FMT_CODES.to_vec()).prop_map(|s| s.to_string()), 0..=3),
            0u8..2,
            prop::collection::vec(xf_spec(), 0..=5),
        ),
        (prop::collection::vec(def_name_spec(), 0..=3), any::<bool>(), 0u8..3, any::<bool>(), prop::bool::weighted(0.3), prop::bool::weighted(0.3), prop::bool::weighted(0.2), prop::bool::weighted(0.3)),
        dirty,
    )
        .prop_map(|((seed, esc, pretty, (names, mut sheets), active), (fonts, fills, borders, mut num_fmts, style_xfs, xfs), (defined_names, sst_counts, sst_unused, sst_dedupe, abs_targets, dir_entries, stored, sheet_ids_shuffled), dirty)| {
            for (s, n) in sheets.iter_mut().zip(names.into_iter()) {
                s.name = n;
            }
            num_fmts.dedup();
            XlsxSpec {
                seed,
                esc,
                pretty,
                sheets,
                active,
                fonts,
                fills,
                borders,
                num_fmts,
                style_xfs,
                xfs,
                defined_names,
                sst_counts,
                sst_unused,
                sst_dedupe,
                abs_targets,
                dir_entries,
                stored,
                sheet_ids_shuffled,
                dirty,
            }
        })
        .boxed()
}

pub fn clean_spec(t: Tier) -> BoxedStrategy<XlsxSpec> {
    xlsx_spec(t, Just(Dirty::None).boxed())
}

pub fn dirty_spec(t: Tier) -> BoxedStrategy<XlsxSpec> {
    xlsx_spec(t, prop::sample::select(ALL_DIRTY.to_vec()).boxed())
}
