//! Hand-written XML escaping with a deterministic choice stream: every character that may
//! be written in more than one way (literal, named entity, decimal or hexadecimal character
//! reference) is written in one of them, chosen by `mode` and the stream.
use crate::engine::splitmix;

pub struct Esc {
    state: u64,
    /// 0 minimal, 1 named entities wherever one exists, 2 mixed
    pub mode: u8,
    /// number of entity / character references written into attribute values
    pub attr_refs: u32,
    /// number of references written into element content
    pub text_refs: u32,
}

impl Esc {
    pub fn new(seed: u64, mode: u8) -> Esc {
        Esc { state: splitmix(seed ^ 0xE5C), mode, attr_refs: 0, text_refs: 0 }
    }

    pub fn next(&mut self) -> u64 {
        self.state = splitmix(self.state);
        self.state
    }

    pub fn coin(&mut self, num: u64, den: u64) -> bool {
        self.next() % den < num
    }

    fn named(c: char) -> Option<&'static str> {
        match c {
            '<' => Some("&lt;"),
            '>' => Some("&gt;"),
            '&' => Some("&amp;"),
            '"' => Some("&quot;"),
            '\'' => Some("&apos;"),
            _ => None,
        }
    }

    fn numeric(&mut self, c: char) -> String {
        match self.next() % 3 {
            0 => format!("&#{};", c as u32),
            1 => format!("&#x{:X};", c as u32),
            _ => format!("&#x{:x};", c as u32),
        }
    }

    fn one(&mut self, c: char, in_attr: bool, prev_two: (char, char)) -> (String, bool) {
        // mandatory cases first
        let must = match c {
            '<' | '&' => true,
            '>' => prev_two == (']', ']'),
            '"' => in_attr,
            '\r' => true,
            '\n' | '\t' => in_attr,
            _ => false,
        };
        let has_name = Self::named(c).is_some();
        if must {
            let s = if has_name && (self.mode != 2 || self.coin(1, 2)) { Self::named(c).unwrap().to_string() } else { self.numeric(c) };
            return (s, true);
        }
        match self.mode {
            0 => (c.to_string(), false),
            1 => {
                if has_name {
                    (Self::named(c).unwrap().to_string(), true)
                } else {
                    (c.to_string(), false)
                }
            }
            _ => {
                if has_name {
                    match self.next() % 3 {
                        0 => (c.to_string(), false),
                        1 => (Self::named(c).unwrap().to_string(), true),
                        _ => (self.numeric(c), true),
                    }
                } else if (c as u32) >= 0x80 && self.coin(1, 3) {
                    (self.numeric(c), true)
                } else if c.is_ascii_alphanumeric() && self.coin(1, 40) {
                    (self.numeric(c), true)
                } else {
                    (c.to_string(), false)
                }
            }
        }
    }

    /// element content
    pub fn text(&mut self, s: &str) -> String {
        let mut out = String::with_capacity(s.len() + 8);
        let mut p = ('\0', '\0');
        for c in s.chars() {
            let (t, r) = self.one(c, false, p);
            if r {
                self.text_refs += 1;
            }
            out.push_str(&t);
            p = (p.1, c);
        }
        out
    }

    /// attribute value (always written inside double quotes)
    pub fn attr(&mut self, s: &str) -> String {
        let mut out = String::with_capacity(s.len() + 8);
        for c in s.chars() {
            let (t, r) = self.one(c, true, ('\0', '\0'));
            if r {
                self.attr_refs += 1;
            }
            out.push_str(&t);
        }
        out
    }
}

/// Characters XML 1.0 can carry.
pub fn xml_legal(c: char) -> bool {
    matches!(c as u32, 0x9 | 0xA | 0xD | 0x20..=0xD7FF | 0xE000..=0xFFFD | 0x10000..=0x10FFFF)
}

pub fn has_edge_blank(s: &str) -> bool {
    s.starts_with(|c: char| c == ' ' || c == '\t' || c == '\n' || c == '\r') || s.ends_with(|c: char| c == ' ' || c == '\t' || c == '\n' || c == '\r')
}
