//! styles.xml of a generated file and its expected decode.
use super::esc::Esc;
use super::spec::*;
use crate::engine::pick_idx;
use crate::pyworker::*;

pub const NS_MAIN: &str = "http://schemas.openxmlformats.org/spreadsheetml/2006/main";

const PATTERNS: [&str; 8] = ["none", "solid", "gray125", "darkGrid", "lightUp", "mediumGray", "darkHorizontal", "lightTrellis"];
const BORDER_STYLES: [&str; 6] = ["", "thin", "medium", "dashed", "double", "thick"];
const HORIZONTAL: [&str; 8] = ["", "general", "left", "center", "right", "fill", "justify", "centerContinuous"];
const VERTICAL: [&str; 5] = ["", "top", "center", "bottom", "justify"];
/// built-in number format ids used by generated files (codes agreed on by every implementation)
const BUILTIN_IDS: [u32; 8] = [0, 1, 2, 9, 10, 11, 49, 4];

fn builtin_code(id: u32) -> &'static str {
    match id {
        0 => "General",
        1 => "0",
        2 => "0.00",
        4 => "#,##0.00",
        9 => "0%",
        10 => "0.00%",
        11 => "0.00E+00",
        49 => "@",
        _ => unreachable!(),
    }
}

fn color_xml(tag: &str, c: &ColorSpec) -> String {
    match c {
        ColorSpec::None => String::new(),
        ColorSpec::Rgb(v) => format!("<{} rgb=\"{}\"/>", tag, v),
        ColorSpec::Theme(t) => format!("<{} theme=\"{}\"/>", tag, t),
        ColorSpec::Indexed(i) => format!("<{} indexed=\"{}\"/>", tag, i),
    }
}

fn color_model(c: &ColorSpec) -> Option<DColor> {
    match c {
        ColorSpec::None => None,
        ColorSpec::Rgb(v) => Some(DColor { rgb: Some(v.clone()), ..Default::default() }),
        ColorSpec::Theme(t) => Some(DColor { theme: Some(t.to_string()), ..Default::default() }),
        ColorSpec::Indexed(i) => Some(DColor { indexed: Some(i.to_string()), ..Default::default() }),
    }
}

pub struct StylesOut {
    pub xml: String,
    pub xfs: Vec<DXf>,
    pub counts: DStyleCounts,
    pub num_fmts: Vec<DNumFmt>,
    /// a font name / format code with an XML special was written into an attribute
    pub attr_special: bool,
}

fn default_font() -> FontSpec {
    FontSpec { name: "Calibri".into(), size: 11, half: false, bold: false, italic: false, strike: false, underline: 0, color: ColorSpec::Theme(1) }
}

fn font_xml(f: &FontSpec, esc: &mut Esc) -> (String, DFont) {
    let mut x = String::from("<font>");
    if f.bold {
        x.push_str("<b/>");
    }
    if f.italic {
        x.push_str("<i/>");
    }
    if f.strike {
        x.push_str("<strike/>");
    }
    let underline = match f.underline {
        1 => {
            x.push_str("<u/>");
            Some("single".to_string())
        }
        2 => {
            x.push_str("<u val=\"double\"/>");
            Some("double".to_string())
        }
        _ => None,
    };
    let size = if f.half { format!("{}.5", f.size) } else { f.size.to_string() };
    x.push_str(&format!("<sz val=\"{}\"/>", size));
    x.push_str(&color_xml("color", &f.color));
    x.push_str(&format!("<name val=\"{}\"/>", esc.attr(&f.name)));
    x.push_str("</font>");
    let m = DFont {
        name: Some(f.name.clone()),
        size: Some(size),
        bold: f.bold,
        italic: f.italic,
        strike: f.strike,
        underline,
        color: color_model(&f.color),
        ..Default::default()
    };
    (x, m)
}

fn empty_side() -> Option<DBorderSide> {
    Some(DBorderSide { style: None, color: None })
}

/// Render styles.xml.  `implicit_xf0`: make cellXfs[0] a non-default record (dirty stratum).
pub fn render_styles(spec: &XlsxSpec, esc: &mut Esc, implicit_xf0: bool) -> StylesOut {
    let mut attr_special = false;
    // number formats
    let mut nf_xml = String::new();
    let mut num_fmts: Vec<DNumFmt> = Vec::new();
    // some declared formats REDEFINE a built-in id (WPS and localised Excel write 41-44 and
    // others with their own codes): the declared code wins over the implied one
    const REDEFINED: [u32; 8] = [44, 14, 37, 22, 38, 41, 39, 40];
    let redefine_bits = crate::engine::splitmix(spec.seed ^ 0xF0);
    let fmt_id = |i: usize| -> u32 {
        if i < REDEFINED.len() && (redefine_bits >> i) & 1 == 1 {
            REDEFINED[i]
        } else {
            164 + i as u32
        }
    };
    for (i, code) in spec.num_fmts.iter().enumerate() {
        let id = fmt_id(i);
        if code.contains(|c| matches!(c, '<' | '>' | '&' | '"' | '\'')) {
            attr_special = true;
        }
        nf_xml.push_str(&format!("<numFmt numFmtId=\"{}\" formatCode=\"{}\"/>", id, esc.attr(code)));
        num_fmts.push(DNumFmt { id, code: code.clone() });
    }
    // fonts
    let mut fonts = vec![default_font()];
    fonts.extend(spec.fonts.iter().cloned());
    let mut fonts_xml = String::new();
    let mut fonts_m = Vec::new();
    for f in &fonts {
        if f.name.contains(|c| matches!(c, '<' | '>' | '&' | '"' | '\'')) {
            attr_special = true;
        }
        let (x, m) = font_xml(f, esc);
        fonts_xml.push_str(&x);
        fonts_m.push(m);
    }
    // fills: the two mandatory records first
    let mut fills_xml = String::from("<fill><patternFill patternType=\"none\"/></fill><fill><patternFill patternType=\"gray125\"/></fill>");
    let mut fills_m = vec![
        DFill { kind: "pattern".into(), pattern: Some("none".into()), fg: None, bg: None },
        DFill { kind: "pattern".into(), pattern: Some("gray125".into()), fg: None, bg: None },
    ];
    for f in &spec.fills {
        let p = PATTERNS[(f.pattern as usize) % PATTERNS.len()];
        let inner = format!("{}{}", color_xml("fgColor", &f.fg), color_xml("bgColor", &f.bg));
        if inner.is_empty() {
            fills_xml.push_str(&format!("<fill><patternFill patternType=\"{}\"/></fill>", p));
        } else {
            fills_xml.push_str(&format!("<fill><patternFill patternType=\"{}\">{}</patternFill></fill>", p, inner));
        }
        fills_m.push(DFill { kind: "pattern".into(), pattern: Some(p.into()), fg: color_model(&f.fg), bg: color_model(&f.bg) });
    }
    // borders
    let mut borders_xml = String::from("<border><left/><right/><top/><bottom/><diagonal/></border>");
    let mut borders_m = vec![DBorder { left: empty_side(), right: empty_side(), top: empty_side(), bottom: empty_side(), diagonal: empty_side(), diagonal_up: false, diagonal_down: false }];
    for b in &spec.borders {
        let mut x = String::new();
        let mut sides: Vec<Option<DBorderSide>> = Vec::new();
        let diag = BORDER_STYLES[(b.sides[4] as usize) % BORDER_STYLES.len()];
        for (k, tag) in ["left", "right", "top", "bottom", "diagonal"].iter().enumerate() {
            let st = BORDER_STYLES[(b.sides[k] as usize) % BORDER_STYLES.len()];
            if st.is_empty() {
                x.push_str(&format!("<{}/>", tag));
                sides.push(empty_side());
            } else {
                let col = color_xml("color", &b.color);
                if col.is_empty() {
                    x.push_str(&format!("<{} style=\"{}\"/>", tag, st));
                } else {
                    x.push_str(&format!("<{} style=\"{}\">{}</{}>", tag, st, col, tag));
                }
                sides.push(Some(DBorderSide { style: Some(st.into()), color: color_model(&b.color) }));
            }
        }
        let up = !diag.is_empty();
        borders_xml.push_str(&format!("<border{}>{}</border>", if up { " diagonalUp=\"1\"" } else { "" }, x));
        let d = sides.pop().unwrap();
        let bo = sides.pop().unwrap();
        let t = sides.pop().unwrap();
        let r = sides.pop().unwrap();
        let l = sides.pop().unwrap();
        borders_m.push(DBorder { left: l, right: r, top: t, bottom: bo, diagonal: d, diagonal_up: up, diagonal_down: false });
    }
    // cellStyleXfs: plain records (no apply flags, no alignment)
    let n_style = 1 + spec.style_xfs as usize;
    let mut style_xml = String::new();
    for k in 0..n_style {
        let font = if k == 0 { 0 } else { pick_idx(0x8000, fonts.len()) };
        style_xml.push_str(&format!("<xf numFmtId=\"0\" fontId=\"{}\" fillId=\"0\" borderId=\"0\"/>", font));
    }
    // cellXfs
    let mut xfs_xml = String::new();
    let mut xfs_m: Vec<DXf> = Vec::new();
    let mut all: Vec<XfSpec> = Vec::new();
    if implicit_xf0 {
        all.push(XfSpec { num_fmt: 0, font: 0, fill: 0, border: 0, xf_id: 0, flags: false, align: Some((0, 2, false, 0)), prot: None });
    } else {
        all.push(XfSpec { num_fmt: 0, font: 0, fill: 0, border: 0, xf_id: 0, flags: false, align: None, prot: None });
    }
    all.extend(spec.xfs.iter().cloned());
    let nf_choices: Vec<u32> = BUILTIN_IDS.iter().cloned().chain((0..spec.num_fmts.len()).map(fmt_id)).collect();
    for (k, x) in all.iter().enumerate() {
        let (nf, font, fill, border, xf_id) = if k == 0 {
            (0u32, 0usize, 0usize, 0usize, 0usize)
        } else {
            (
                nf_choices[pick_idx(x.num_fmt, nf_choices.len())],
                pick_idx(x.font, fonts.len()),
                pick_idx(x.fill, fills_m.len()),
                pick_idx(x.border, borders_m.len()),
                pick_idx(x.xf_id, n_style),
            )
        };
        let mut attrs = format!("numFmtId=\"{}\" fontId=\"{}\" fillId=\"{}\" borderId=\"{}\" xfId=\"{}\"", nf, font, fill, border, xf_id);
        let mut apply = DApply::default();
        if x.flags {
            if nf != 0 {
                attrs.push_str(" applyNumberFormat=\"1\"");
                apply.number_format = Some(true);
            }
            if font != 0 {
                attrs.push_str(" applyFont=\"1\"");
                apply.font = Some(true);
            }
            if fill != 0 {
                attrs.push_str(" applyFill=\"1\"");
                apply.fill = Some(true);
            }
            if border != 0 {
                attrs.push_str(" applyBorder=\"1\"");
                apply.border = Some(true);
            }
            if x.align.is_some() {
                attrs.push_str(" applyAlignment=\"1\"");
                apply.alignment = Some(true);
            }
            if x.prot.is_some() {
                attrs.push_str(" applyProtection=\"1\"");
                apply.protection = Some(true);
            }
        }
        let mut inner = String::new();
        let mut alignment = None;
        if let Some((h, v, wrap, rot)) = x.align {
            let hs = HORIZONTAL[(h as usize) % HORIZONTAL.len()];
            let vs = VERTICAL[(v as usize) % VERTICAL.len()];
            let mut a = String::from("<alignment");
            let mut m = DAlignment::default();
            if !hs.is_empty() {
                a.push_str(&format!(" horizontal=\"{}\"", hs));
                m.horizontal = Some(hs.into());
            }
            if !vs.is_empty() {
                a.push_str(&format!(" vertical=\"{}\"", vs));
                m.vertical = Some(vs.into());
            }
            if rot != 0 {
                a.push_str(&format!(" textRotation=\"{}\"", rot));
                m.text_rotation = Some(rot.to_string());
            }
            if wrap {
                a.push_str(" wrapText=\"1\"");
                m.wrap_text = Some(true);
            }
            a.push_str("/>");
            inner.push_str(&a);
            alignment = Some(m);
        }
        let mut protection = None;
        if let Some((locked, hidden)) = x.prot {
            let mut p = String::from("<protection");
            if let Some(l) = locked {
                p.push_str(&format!(" locked=\"{}\"", l as u8));
            }
            if let Some(h) = hidden {
                p.push_str(&format!(" hidden=\"{}\"", h as u8));
            }
            p.push_str("/>");
            inner.push_str(&p);
            protection = Some(DProtection { locked, hidden });
        }
        if inner.is_empty() {
            xfs_xml.push_str(&format!("<xf {}/>", attrs));
        } else {
            xfs_xml.push_str(&format!("<xf {}>{}</xf>", attrs, inner));
        }
        let declared = (0..spec.num_fmts.len()).find(|i| fmt_id(*i) == nf);
        let (code, builtin) = match declared {
            Some(i) => (spec.num_fmts[i].clone(), false),
            None => (builtin_code(nf).to_string(), true),
        };
        xfs_m.push(DXf {
            num_fmt_id: nf,
            num_fmt_code: Some(code),
            num_fmt_builtin: builtin,
            font_id: font as u32,
            fill_id: fill as u32,
            border_id: border as u32,
            xf_id: Some(xf_id as u32),
            apply,
            style_apply: Some(DApply::default()),
            font: Some(fonts_m[font].clone()),
            fill: Some(fills_m[fill].clone()),
            border: Some(borders_m[border].clone()),
            alignment,
            style_alignment: None,
            protection,
            style_protection: None,
            quote_prefix: false,
        });
    }
    let mut xml = String::from("<?xml version=\"1.0\" encoding=\"UTF-8\" standalone=\"yes\"?>\n");
    xml.push_str(&format!("<styleSheet xmlns=\"{}\">", NS_MAIN));
    if !spec.num_fmts.is_empty() {
        xml.push_str(&format!("<numFmts count=\"{}\">{}</numFmts>", spec.num_fmts.len(), nf_xml));
    }
    xml.push_str(&format!("<fonts count=\"{}\">{}</fonts>", fonts.len(), fonts_xml));
    xml.push_str(&format!("<fills count=\"{}\">{}</fills>", fills_m.len(), fills_xml));
    xml.push_str(&format!("<borders count=\"{}\">{}</borders>", borders_m.len(), borders_xml));
    xml.push_str(&format!("<cellStyleXfs count=\"{}\">{}</cellStyleXfs>", n_style, style_xml));
    xml.push_str(&format!("<cellXfs count=\"{}\">{}</cellXfs>", all.len(), xfs_xml));
    xml.push_str("<cellStyles count=\"1\"><cellStyle name=\"Normal\" xfId=\"0\" builtinId=\"0\"/></cellStyles>");
    xml.push_str("<dxfs count=\"0\"/><tableStyles count=\"0\" defaultTableStyle=\"TableStyleMedium2\" defaultPivotStyle=\"PivotStyleLight16\"/>");
    xml.push_str("</styleSheet>");
    let counts = DStyleCounts {
        num_fmts: spec.num_fmts.len() as u32,
        fonts: fonts.len() as u32,
        fills: fills_m.len() as u32,
        borders: borders_m.len() as u32,
        cell_style_xfs: n_style as u32,
        cell_xfs: all.len() as u32,
        cell_styles: 1,
        dxfs: 0,
        declared: Default::default(),
    };
    num_fmts.sort_by_key(|n| n.id);
    StylesOut { xml, xfs: xfs_m, counts, num_fmts, attr_special }
}
