//! One worksheet of a generated file: layout of the cells, XML text, expected decode.
use super::esc::{has_edge_blank, xml_legal, Esc};
use super::spec::*;
use super::{a1, col_letters, translate};
use crate::engine::pick_idx;
use crate::pyworker::*;
use std::collections::BTreeMap;

/// Which known findings the clean strata are steered around (true = steer).
#[derive(Debug, Clone, Copy, Default)]
pub struct Steer {
    pub inline_guess: bool,
    pub inline_rich: bool,
    pub xstring: bool,
    pub shared_quoted: bool,
    pub shared_above_left: bool,
}

pub const COLS: [u32; 18] = [1, 2, 3, 4, 5, 6, 7, 8, 26, 27, 28, 52, 53, 702, 703, 704, 16383, 16384];
pub const ROWS: [u32; 18] = [1, 2, 3, 4, 5, 6, 7, 8, 9, 10, 11, 12, 99, 100, 150, 65536, 1048575, 1048576];

/// shared string table under construction
pub struct Sst {
    pub items: Vec<(String, DSstItem)>,
    pub dedupe: bool,
    pub refs: u32,
}

impl Sst {
    pub fn add(&mut self, xml: String, item: DSstItem) -> usize {
        self.refs += 1;
        if self.dedupe {
            if let Some(i) = self.items.iter().position(|(x, _)| *x == xml) {
                return i;
            }
        }
        self.items.push((xml, item));
        self.items.len() - 1
    }
}

pub struct OutCell {
    pub attrs: String,
    pub body: String,
    pub model: DCell,
}

#[derive(Default, Clone)]
pub struct RowMeta {
    pub spans: bool,
    pub style: Option<u32>,
    pub height: Option<u8>,
    pub hidden: bool,
    pub no_r_cells: bool,
}

pub struct SheetOut {
    pub xml: String,
    /// relationships of the sheet: (Id, Type suffix, Target, external)
    pub rels: Vec<(String, &'static str, String, bool)>,
    /// table part (name in package, xml)
    pub table: Option<(String, String)>,
    pub model: DSheet,
    pub excluded: Vec<&'static str>,
    pub shared_above_left: bool,
}

pub struct Ctx<'a> {
    pub spec: &'a XlsxSpec,
    pub esc: &'a mut Esc,
    pub sst: &'a mut Sst,
    pub steer: Steer,
    pub n_xf: usize,
    pub sheet_names: Vec<String>,
    pub table_counter: &'a mut u32,
}

pub fn simple_sheet_name(n: &str) -> bool {
    let mut ch = n.chars();
    let first_ok = ch.next().map_or(false, |c| c.is_ascii_alphabetic() || c == '_');
    first_ok
        && n.chars().all(|c| c.is_ascii_alphanumeric() || c == '_')
        && super::parse_a1(n).is_none()
        && !n.eq_ignore_ascii_case("TRUE")
        && !n.eq_ignore_ascii_case("FALSE")
        && !(n.len() <= 8 && (n.to_ascii_uppercase().starts_with('R') || n.to_ascii_uppercase().starts_with('C')) && n[1..].chars().all(|c| c.is_ascii_digit() || c == 'C' || c == 'c'))
}

pub fn quote_sheet(n: &str) -> String {
    if simple_sheet_name(n) {
        n.to_string()
    } else {
        format!("'{}'", n.replace('\'', "''"))
    }
}

pub fn guessable(s: &str) -> bool {
    let u = s.to_uppercase();
    s.is_empty() || u == "TRUE" || u == "FALSE" || u.starts_with('#') || s.parse::<f64>().is_ok()
}

fn looks_like_xstring(s: &str) -> bool {
    let b: Vec<char> = s.chars().collect();
    for i in 0..b.len() {
        if b[i] == '_' && i + 6 < b.len() && b[i + 1] == 'x' && b[i + 6] == '_' && b[i + 2..i + 6].iter().all(|c| c.is_ascii_hexdigit()) {
            return true;
        }
    }
    false
}

fn sanitize(s: &str) -> String {
    s.chars().filter(|c| xml_legal(*c)).collect()
}

fn t_element(esc: &mut Esc, text: &str, force_space: bool, long_empty: bool) -> String {
    if text.is_empty() && !long_empty {
        return "<t/>".to_string();
    }
    let space = if has_edge_blank(text) || force_space { " xml:space=\"preserve\"" } else { "" };
    format!("<t{}>{}</t>", space, esc.text(text))
}

fn run_font_model(r: &RunSpec) -> Option<DFont> {
    if !r.bold && !r.italic && r.font.is_none() && r.size.is_none() && r.rgb.is_none() {
        return None;
    }
    Some(DFont {
        name: r.font.clone(),
        size: r.size.map(|s| s.to_string()),
        bold: r.bold,
        italic: r.italic,
        color: r.rgb.as_ref().map(|c| DColor { rgb: Some(c.clone()), ..Default::default() }),
        ..Default::default()
    })
}

fn runs_xml(esc: &mut Esc, runs: &[RunSpec]) -> String {
    let mut x = String::new();
    for r in runs {
        x.push_str("<r>");
        if run_font_model(r).is_some() {
            x.push_str("<rPr>");
            if r.bold {
                x.push_str("<b/>");
            }
            if r.italic {
                x.push_str("<i/>");
            }
            if let Some(s) = r.size {
                x.push_str(&format!("<sz val=\"{}\"/>", s));
            }
            if let Some(c) = &r.rgb {
                x.push_str(&format!("<color rgb=\"{}\"/>", c));
            }
            if let Some(f) = &r.font {
                x.push_str(&format!("<rFont val=\"{}\"/>", esc.attr(f)));
            }
            x.push_str("</rPr>");
        }
        x.push_str(&t_element(esc, &r.text, false, true));
        x.push_str("</r>");
    }
    x
}

const PHONETIC: &str = "<rPh sb=\"0\" eb=\"1\"><t>フリガナ</t></rPh><phoneticPr fontId=\"1\"/>";

fn blank_cell(col: u32, row: u32) -> DCell {
    DCell { r: a1(col, row), row, col, has_r: true, kind: "blank".into(), ..Default::default() }
}

/// Render the `<c>` of an ordinary cell.  Returns None when nothing is to be written.
fn render_cell(cx: &mut Ctx, c: &CellSpec, col: u32, row: u32, excluded: &mut Vec<&'static str>) -> Option<OutCell> {
    let mut m = blank_cell(col, row);
    let xf = if c.xf == 0 || cx.n_xf <= 1 { 0 } else { 1 + pick_idx(c.xf, cx.n_xf - 1) };
    let mut attrs = format!("r=\"{}\"", m.r);
    if xf > 0 {
        attrs.push_str(&format!(" s=\"{}\"", xf));
        m.s = xf as u32;
        m.has_s = true;
    }
    let mut body = String::new();
    let mut formula = c.formula.clone().map(|f| sanitize(&f)).filter(|f| !f.is_empty());
    if matches!(c.content, Content::Rich(_)) {
        formula = None;
    }
    if let Some(f) = &formula {
        body.push_str(&format!("<f>{}</f>", cx.esc.text(f)));
        m.formula = Some(f.clone());
        m.f_type = Some("normal".into());
    }
    match &c.content {
        Content::Blank => {
            if xf == 0 && formula.is_none() {
                return None;
            }
        }
        Content::Text(raw) => {
            let mut text = sanitize(raw);
            if looks_like_xstring(&text) && cx.steer.xstring {
                text = text.replace("_x", "_y");
                excluded.push("xstring-escape");
            }
            let mut enc = c.enc % 4;
            if formula.is_some() {
                // the cached text of a formula: <v> of t="str" (what Excel writes) or, for a
                // quarter of the cases, an inline string next to the <f> (CT_Cell: f?, v?, is?)
                enc = if c.enc % 8 >= 6 { 2 } else { 3 };
                if looks_like_xstring(&text) {
                    // the cached result of a formula is written into <v> (t="str"); no
                    // producer writes t="s" next to <f>, so the escape look-alike is avoided here
                    text = text.replace("_x", "_y");
                    excluded.push("xstring-in-formula-result");
                }
            }
            if enc == 2 && guessable(&text) && cx.steer.inline_guess {
                // never t="s" next to <f> (no producer writes it; the library drops the formula there)
                enc = if formula.is_some() { 3 } else { 0 };
                excluded.push("inlineStr-type-guess");
            }
            if looks_like_xstring(&text) {
                // needs _x005F_ protection: only the shared-string encoding below writes it
                enc = 0;
            }
            m.kind = "text".into();
            m.value = text.clone();
            match enc {
                2 => {
                    attrs.push_str(" t=\"inlineStr\"");
                    m.t = Some("inlineStr".into());
                    body.push_str(&format!("<is>{}</is>", t_element(cx.esc, &text, c.space, c.long_empty)));
                }
                3 if formula.is_some() || c.enc % 8 == 3 => {
                    attrs.push_str(" t=\"str\"");
                    m.t = Some("str".into());
                    if text.is_empty() && !c.long_empty {
                        body.push_str("<v/>");
                    } else {
                        let space = if has_edge_blank(&text) { " xml:space=\"preserve\"" } else { "" };
                        body.push_str(&format!("<v{}>{}</v>", space, cx.esc.text(&text)));
                    }
                }
                _ => {
                    let phon = enc == 3;
                    let protected = protect_xstring(&text);
                    let mut x = format!("<si>{}", t_element(cx.esc, &protected, c.space, c.long_empty));
                    if phon {
                        x.push_str(PHONETIC);
                    }
                    x.push_str("</si>");
                    let idx = cx.sst.add(x, DSstItem { text: text.clone(), rich: false, phonetic: phon });
                    attrs.push_str(" t=\"s\"");
                    m.t = Some("s".into());
                    m.phonetic = phon;
                    m.sst_index = Some(idx as u32);
                    body.push_str(&format!("<v>{}</v>", idx));
                }
            }
        }
        Content::Rich(runs) => {
            let runs: Vec<RunSpec> = runs
                .iter()
                .map(|r| {
                    let mut r = r.clone();
                    r.text = sanitize(&r.text).replace("_x", "_y");
                    if r.text.is_empty() {
                        r.text = "r".into();
                    }
                    r
                })
                .collect();
            let mut enc = c.enc % 3;
            if enc == 2 && cx.steer.inline_rich {
                enc = 0;
                excluded.push("inlineStr-rich");
            }
            m.kind = "rich".into();
            m.value = runs.iter().map(|r| r.text.as_str()).collect::<String>();
            m.runs = Some(runs.iter().map(|r| DRun { text: r.text.clone(), font: run_font_model(r) }).collect());
            if enc == 2 {
                attrs.push_str(" t=\"inlineStr\"");
                m.t = Some("inlineStr".into());
                body.push_str(&format!("<is>{}</is>", runs_xml(cx.esc, &runs)));
            } else {
                let phon = enc == 1;
                let mut x = format!("<si>{}", runs_xml(cx.esc, &runs));
                if phon {
                    x.push_str(PHONETIC);
                }
                x.push_str("</si>");
                let idx = cx.sst.add(x, DSstItem { text: m.value.clone(), rich: true, phonetic: phon });
                attrs.push_str(" t=\"s\"");
                m.t = Some("s".into());
                m.phonetic = phon;
                m.sst_index = Some(idx as u32);
                body.push_str(&format!("<v>{}</v>", idx));
            }
        }
        Content::Number(lit) => {
            let f: f64 = lit.parse().unwrap_or(0.0);
            let lit = if lit.parse::<f64>().map_or(false, |x| x.is_finite()) { lit.clone() } else { "0".to_string() };
            let f = if f.is_finite() { f } else { 0.0 };
            if c.enc % 2 == 1 {
                attrs.push_str(" t=\"n\"");
                m.t = Some("n".into());
            }
            m.kind = "number".into();
            m.value = lit.clone();
            m.bits = Some(format!("{:016x}", f.to_bits()));
            body.push_str(&format!("<v>{}</v>", lit));
        }
        Content::Bool(b) => {
            attrs.push_str(" t=\"b\"");
            m.t = Some("b".into());
            m.kind = "bool".into();
            m.value = if *b { "TRUE".into() } else { "FALSE".into() };
            body.push_str(&format!("<v>{}</v>", *b as u8));
        }
        Content::Error(e) => {
            let lit = ERRORS[(*e as usize) % ERRORS.len()];
            attrs.push_str(" t=\"e\"");
            m.t = Some("e".into());
            m.kind = "error".into();
            m.value = lit.into();
            body.push_str(&format!("<v>{}</v>", cx.esc.text(lit)));
        }
    }
    Some(OutCell { attrs, body, model: m })
}

/// Write a literal `_xHHHH_` so that it survives ST_Xstring decoding.
pub fn protect_xstring(s: &str) -> String {
    if !looks_like_xstring(s) {
        return s.to_string();
    }
    let b: Vec<char> = s.chars().collect();
    let mut out = String::new();
    let mut i = 0;
    while i < b.len() {
        if b[i] == '_' && i + 6 < b.len() && b[i + 1] == 'x' && b[i + 6] == '_' && b[i + 2..i + 6].iter().all(|c| c.is_ascii_hexdigit()) {
            out.push_str("_x005F_");
        } else {
            out.push(b[i]);
        }
        i += 1;
    }
    out
}

fn ref_text(col: u32, row: u32, ac: bool, ar: bool) -> String {
    format!("{}{}{}{}", if ac { "$" } else { "" }, col_letters(col), if ar { "$" } else { "" }, row)
}

fn off(base: u32, d: i8) -> u32 {
    (base as i64 + d as i64).max(1) as u32
}

const FUNCS: [&str; 4] = ["SUM", "MAX", "COUNT", "AVERAGE"];
const OPS: [&str; 9] = ["+", "-", "*", "/", "&", "=", "<>", ">=", "<"];

/// master text of a shared block at anchor (acol, arow)
fn shared_text(cx: &mut Ctx, s: &SharedSpec, acol: u32, arow: u32, excluded: &mut Vec<&'static str>, above_left: &mut bool) -> String {
    let mut parts: Vec<String> = Vec::new();
    let steer_al = cx.steer.shared_above_left;
    let adj = |d: i8, abs: bool, excluded: &mut Vec<&'static str>, above_left: &mut bool| -> i8 {
        if d < 0 && !abs {
            if steer_al {
                excluded.push("shared-ref-above-left");
                return -d;
            }
            *above_left = true;
        }
        d
    };
    for t in &s.terms {
        let p = match t {
            TermSpec::Ref { dx, dy, ac, ar } => {
                let dx = adj(*dx, *ac, excluded, above_left);
                let dy = adj(*dy, *ar, excluded, above_left);
                ref_text(off(acol, dx), off(arow, dy), *ac, *ar)
            }
            TermSpec::Range { dx, dy, w, h, flags } | TermSpec::Func { dx, dy, w, h, flags, .. } => {
                let (a, b, c2, d2) = (flags & 1 != 0, flags & 2 != 0, flags & 4 != 0, flags & 8 != 0);
                let dx = adj(*dx, a && c2, excluded, above_left);
                let dy = adj(*dy, b && d2, excluded, above_left);
                let (c1, r1) = (off(acol, dx), off(arow, dy));
                let rng = format!("{}:{}", ref_text(c1, r1, a, b), ref_text(c1 + *w as u32, r1 + *h as u32, c2, d2));
                match t {
                    TermSpec::Func { name, .. } => format!("{}({})", FUNCS[(*name as usize) % FUNCS.len()], rng),
                    _ => format!("SUM({})", rng),
                }
            }
            TermSpec::Num(n) => {
                if *n < 0 {
                    format!("({})", n)
                } else {
                    n.to_string()
                }
            }
            TermSpec::Str(x) => format!("\"{}\"", x),
            TermSpec::SheetRef { sheet, dx, dy, ac, ar } => {
                let name = cx.sheet_names[pick_idx(*sheet, cx.sheet_names.len())].clone();
                let dx = adj(*dx, *ac, excluded, above_left);
                let dy = adj(*dy, *ar, excluded, above_left);
                let r = ref_text(off(acol, dx), off(arow, dy), *ac, *ar);
                if simple_sheet_name(&name) {
                    format!("{}!{}", name, r)
                } else if cx.steer.shared_quoted {
                    excluded.push("shared-quoted-sheet");
                    r
                } else {
                    format!("{}!{}", quote_sheet(&name), r)
                }
            }
            TermSpec::WholeCols { dx, w, flags } => {
                let dx = adj(*dx, flags & 1 != 0, excluded, above_left);
                let c1 = off(acol, dx);
                format!("SUM({}{}:{}{})", if flags & 1 != 0 { "$" } else { "" }, col_letters(c1), if flags & 2 != 0 { "$" } else { "" }, col_letters(c1 + *w as u32))
            }
        };
        parts.push(p);
    }
    let mut text = parts[0].clone();
    for (i, p) in parts.iter().enumerate().skip(1) {
        let op = OPS[(s.ops.get(i - 1).cloned().unwrap_or(0) as usize) % OPS.len()];
        text.push_str(op);
        text.push_str(p);
    }
    text
}

/// Put one shared block (master text given) into the cell map.
pub fn place_shared(cells: &mut BTreeMap<(u32, u32), OutCell>, esc: &mut Esc, si: u32, acol: u32, arow: u32, w: u8, h: u8, members: u16, ref_whole: bool, cached: bool, text: &str) -> usize {
    let mut offs: Vec<(u32, u32)> = Vec::new();
    for k in 0..(w as u32 * h as u32) {
        if k == 0 || members & (1 << (k % 16)) != 0 {
            offs.push((k % w as u32, k / w as u32));
        }
    }
    let (mw, mh) = if ref_whole { (w as u32 - 1, h as u32 - 1) } else { (offs.iter().map(|o| o.0).max().unwrap(), offs.iter().map(|o| o.1).max().unwrap()) };
    let rf = if mw == 0 && mh == 0 { a1(acol, arow) } else { format!("{}:{}", a1(acol, arow), a1(acol + mw, arow + mh)) };
    for (i, (dc, dr)) in offs.iter().enumerate() {
        let (col, row) = (acol + dc, arow + dr);
        let mut m = blank_cell(col, row);
        let mut body = String::new();
        m.f_type = Some("shared".into());
        m.f_si = Some(si);
        if i == 0 {
            body.push_str(&format!("<f t=\"shared\" ref=\"{}\" si=\"{}\">{}</f>", rf, si, esc.text(text)));
            m.formula = Some(text.to_string());
            m.f_master = true;
            m.f_ref = Some(rf.clone());
        } else {
            body.push_str(&format!("<f t=\"shared\" si=\"{}\"/>", si));
            m.formula = Some(translate(text, *dc as i64, *dr as i64));
            m.f_anchor = Some(a1(acol, arow));
        }
        if cached {
            let v = (col * 7 + row) % 1000;
            body.push_str(&format!("<v>{}</v>", v));
            m.kind = "number".into();
            m.value = v.to_string();
            m.bits = Some(format!("{:016x}", (v as f64).to_bits()));
        }
        cells.insert((row, col), OutCell { attrs: format!("r=\"{}\"", m.r), body, model: m });
    }
    offs.len()
}

pub fn render_sheet(cx: &mut Ctx, index: usize) -> SheetOut {
    let spec = cx.spec;
    let sh = &spec.sheets[index];
    let mut excluded: Vec<&'static str> = Vec::new();
    let mut cells: BTreeMap<(u32, u32), OutCell> = BTreeMap::new();
    let mut rows: BTreeMap<u32, RowMeta> = BTreeMap::new();
    let mut any_above_left = false;
    let n_xf = cx.n_xf;
    let xf_pick = |raw: u16| -> u32 { if n_xf <= 1 { 0 } else { (1 + pick_idx(raw, n_xf - 1)) as u32 } };

    // ordinary cells
    for r in &sh.rows {
        let row = ROWS[pick_idx(r.row, ROWS.len())];
        if rows.contains_key(&row) {
            continue;
        }
        rows.insert(row, RowMeta { spans: r.spans, style: r.style.map(xf_pick).filter(|s| *s > 0), height: r.height, hidden: r.hidden, no_r_cells: false });
        for c in &r.cells {
            let col = COLS[pick_idx(c.col, COLS.len())];
            if cells.contains_key(&(row, col)) {
                continue;
            }
            if let Some(oc) = render_cell(cx, c, col, row, &mut excluded) {
                cells.insert((row, col), oc);
            }
        }
    }
    // shared formula blocks: rows 200, 210, ...
    for (k, s) in sh.shared.iter().enumerate() {
        let acol = 4 + s.col as u32;
        let arow = 203 + 10 * k as u32;
        let mut al = false;
        let text = shared_text(cx, s, acol, arow, &mut excluded, &mut al);
        let n = place_shared(&mut cells, cx.esc, k as u32, acol, arow, s.w, s.h, s.members, s.ref_whole, s.cached, &text);
        if al && n > 1 {
            any_above_left = true;
        }
    }
    // dirty features (exactly one per file, on the first sheet)
    let mut extra_rows_xml: Vec<(u32, String)> = Vec::new();
    let mut dirty_cells: Vec<DCell> = Vec::new();
    if index == 0 {
        let pickn = |n: u64| (crate::engine::splitmix(spec.seed ^ 0xD1) % n) as usize;
        match spec.dirty {
            Dirty::DateCell => {
                let v = ["2024-02-29T12:30:00", "1999-12-31", "2024-02-29T12:30:00.000Z"][pickn(3)];
                let mut m = blank_cell(1, 500);
                m.t = Some("d".into());
                m.kind = "date-iso".into();
                m.value = v.into();
                cells.insert((500, 1), OutCell { attrs: "r=\"A500\" t=\"d\"".into(), body: format!("<v>{}</v>", v), model: m });
            }
            Dirty::NoR => {
                // a row that mixes self-closing style-only cells (<c s=".."/>, with and
                // without r) with valued cells that have no r: every r-less cell sits right
                // of its predecessor, whatever form the predecessor has
                let st = if n_xf > 1 { " s=\"1\"" } else { "" };
                let style = if n_xf > 1 { 1u32 } else { 0 };
                // 0 valued r-less | 1 self-closing r-less | 2 self-closing with r (one column skipped) | 3 valued with r
                let patterns: [[u8; 6]; 4] = [[1, 0, 2, 0, 0, 1], [0, 1, 0, 2, 0, 3], [2, 0, 1, 1, 0, 0], [3, 1, 0, 0, 2, 0]];
                let pat = patterns[pickn(4)];
                let mut x = String::new();
                let mut col = 0u32;
                for (i, k) in pat.iter().enumerate() {
                    let v = 11 * (i as u32 + 1);
                    col += if *k >= 2 { 2 } else { 1 };
                    let mut m = blank_cell(col, 501);
                    m.has_r = *k >= 2;
                    let rattr = if *k >= 2 { format!(" r=\"{}\"", a1(col, 501)) } else { String::new() };
                    if *k == 1 || *k == 2 {
                        x.push_str(&format!("<c{}{}/>", rattr, st));
                        m.s = style;
                        m.has_s = style > 0;
                    } else {
                        x.push_str(&format!("<c{}><v>{}</v></c>", rattr, v));
                        m.kind = "number".into();
                        m.value = v.to_string();
                        m.bits = Some(format!("{:016x}", (v as f64).to_bits()));
                    }
                    dirty_cells.push(m);
                }
                extra_rows_xml.push((501, format!("<row r=\"501\">{}</row>", x)));
            }
            Dirty::InlineGuess => {
                let v = ["123", "TRUE", "#N/A", "1e5", "-0.5", "false"][pickn(6)];
                let mut m = blank_cell(1, 502);
                m.t = Some("inlineStr".into());
                m.kind = "text".into();
                m.value = v.into();
                cells.insert((502, 1), OutCell { attrs: "r=\"A502\" t=\"inlineStr\"".into(), body: format!("<is><t>{}</t></is>", v), model: m });
            }
            Dirty::InlineRich => {
                let runs = vec![
                    RunSpec { text: "first ".into(), bold: true, italic: false, font: None, size: None, rgb: None },
                    RunSpec { text: "second".into(), bold: false, italic: pickn(2) == 0, font: Some("Arial".into()), size: Some(12), rgb: None },
                ];
                let mut m = blank_cell(1, 503);
                m.t = Some("inlineStr".into());
                m.kind = "rich".into();
                m.value = "first second".into();
                m.runs = Some(runs.iter().map(|r| DRun { text: r.text.clone(), font: run_font_model(r) }).collect());
                let body = format!("<is>{}</is>", runs_xml(cx.esc, &runs));
                cells.insert((503, 1), OutCell { attrs: "r=\"A503\" t=\"inlineStr\"".into(), body, model: m });
            }
            Dirty::XString => {
                let (written, meaning) = [("a_x000D_b", "a\rb"), ("_x005F_x0041_", "_x0041_"), ("tab_x0009_x", "tab\tx")][pickn(3)];
                let idx = cx.sst.add(format!("<si><t>{}</t></si>", written), DSstItem { text: meaning.into(), rich: false, phonetic: false });
                let mut m = blank_cell(1, 504);
                m.t = Some("s".into());
                m.kind = "text".into();
                m.value = meaning.into();
                m.sst_index = Some(idx as u32);
                cells.insert((504, 1), OutCell { attrs: "r=\"A504\" t=\"s\"".into(), body: format!("<v>{}</v>", idx), model: m });
            }
            Dirty::CrLf => {
                let idx = cx.sst.add("<si><t>line1\r\nline2</t></si>".to_string(), DSstItem { text: "line1\nline2".into(), rich: false, phonetic: false });
                let mut m = blank_cell(1, 505);
                m.t = Some("s".into());
                m.kind = "text".into();
                m.value = "line1\nline2".into();
                m.sst_index = Some(idx as u32);
                cells.insert((505, 1), OutCell { attrs: "r=\"A505\" t=\"s\"".into(), body: format!("<v>{}</v>", idx), model: m });
            }
            Dirty::ImplicitXf0 => {
                let mut m = blank_cell(1, 506);
                m.kind = "number".into();
                m.value = "5".into();
                m.bits = Some(format!("{:016x}", 5f64.to_bits()));
                cells.insert((506, 1), OutCell { attrs: "r=\"A506\"".into(), body: "<v>5</v>".into(), model: m });
            }
            Dirty::SharedBlank => {
                place_shared(&mut cells, cx.esc, 90, 3, 510, 1, 3, 0xffff, true, true, "C520 + D$520 - 5");
            }
            Dirty::SharedQuotedSheet => {
                place_shared(&mut cells, cx.esc, 90, 3, 510, 2, 2, 0xffff, true, true, "'My Sheet'!C520+1");
            }
            Dirty::SharedDoubledQuote => {
                place_shared(&mut cells, cx.esc, 90, 3, 510, 1, 3, 0xffff, true, true, "C520&\"a\"\"b\"");
            }
            Dirty::SharedAboveLeft => {
                place_shared(&mut cells, cx.esc, 90, 3, 510, 2, 3, 0xffff, true, true, "A508+C515*$B509+B$1");
                any_above_left = true;
            }
            _ => {}
        }
    }
    // hyperlinks: rows 300..
    let mut rels: Vec<(String, &'static str, String, bool)> = Vec::new();
    let mut links_xml = String::new();
    let mut links_m = Vec::new();
    for (i, l) in sh.links.iter().enumerate() {
        let (col, row) = (1 + (i as u32 % 3), 300 + i as u32);
        let r = a1(col, row);
        let mut attrs = format!("ref=\"{}\"", r);
        let mut m = DHyperlink { r: Some(r.clone()), ..Default::default() };
        match &l.link {
            LinkSpec::External { url } => {
                let id = format!("rId{}", rels.len() + 1);
                attrs.push_str(&format!(" r:id=\"{}\"", id));
                rels.push((id.clone(), "hyperlink", url.clone(), true));
                m.rid = Some(id);
                m.target = Some(url.clone());
                m.external = Some(true);
            }
            LinkSpec::Internal { sheet, cell } => {
                let name = &cx.sheet_names[pick_idx(*sheet, cx.sheet_names.len())];
                let loc = format!("{}!{}", quote_sheet(name), cell);
                attrs.push_str(&format!(" location=\"{}\"", cx.esc.attr(&loc)));
                m.location = Some(loc);
            }
            LinkSpec::InternalName { name } => {
                attrs.push_str(&format!(" location=\"{}\"", cx.esc.attr(name)));
                m.location = Some(name.clone());
            }
        }
        if let Some(t) = &l.tooltip {
            let t = sanitize(t);
            attrs.push_str(&format!(" tooltip=\"{}\"", cx.esc.attr(&t)));
            m.tooltip = Some(t);
        }
        if let Some(d) = &l.display {
            let d = sanitize(d);
            attrs.push_str(&format!(" display=\"{}\"", cx.esc.attr(&d)));
            m.display = Some(d);
        }
        links_xml.push_str(&format!("<hyperlink {}/>", attrs));
        links_m.push(m);
    }
    // table: rows 400..402
    let mut table_out = None;
    let mut tables_m = Vec::new();
    let mut table_parts_xml = String::new();
    if let Some(t) = &sh.table {
        *cx.table_counter += 1;
        let tid = *cx.table_counter;
        let n = t.columns.len() as u32;
        for (i, name) in t.columns.iter().enumerate() {
            let col = 1 + i as u32;
            let idx = cx.sst.add(format!("<si>{}</si>", t_element(cx.esc, name, false, true)), DSstItem { text: name.clone(), rich: false, phonetic: false });
            let mut m = blank_cell(col, 400);
            m.t = Some("s".into());
            m.kind = "text".into();
            m.value = name.clone();
            m.sst_index = Some(idx as u32);
            cells.insert((400, col), OutCell { attrs: format!("r=\"{}\" t=\"s\"", m.r), body: format!("<v>{}</v>", idx), model: m });
            for row in 401..=402u32 {
                let v = row * 10 + col;
                let mut m = blank_cell(col, row);
                m.kind = "number".into();
                m.value = v.to_string();
                m.bits = Some(format!("{:016x}", (v as f64).to_bits()));
                cells.insert((row, col), OutCell { attrs: format!("r=\"{}\"", m.r), body: format!("<v>{}</v>", v), model: m });
            }
        }
        let rf = format!("A400:{}402", col_letters(n));
        let tname = format!("Table{}", tid);
        let mut x = String::from("<?xml version=\"1.0\" encoding=\"UTF-8\" standalone=\"yes\"?>\n");
        x.push_str(&format!("<table xmlns=\"{}\" id=\"{}\" name=\"{}\" displayName=\"{}\" ref=\"{}\" totalsRowShown=\"0\">", super::styles::NS_MAIN, tid, tname, tname, rf));
        x.push_str(&format!("<autoFilter ref=\"{}\"/><tableColumns count=\"{}\">", rf, n));
        for (i, name) in t.columns.iter().enumerate() {
            x.push_str(&format!("<tableColumn id=\"{}\" name=\"{}\"/>", i + 1, cx.esc.attr(name)));
        }
        x.push_str("</tableColumns><tableStyleInfo name=\"TableStyleMedium2\" showFirstColumn=\"0\" showLastColumn=\"0\" showRowStripes=\"1\" showColumnStripes=\"0\"/></table>");
        let part = format!("xl/tables/table{}.xml", tid);
        let id = format!("rId{}", rels.len() + 1);
        rels.push((id.clone(), "table", format!("../tables/table{}.xml", tid), false));
        table_parts_xml = format!("<tableParts count=\"1\"><tablePart r:id=\"{}\"/></tableParts>", id);
        tables_m.push(DTable {
            part: part.clone(),
            id: Some(tid.to_string()),
            name: Some(tname.clone()),
            display_name: Some(tname),
            r: Some(rf),
            columns: t.columns.iter().map(|c| Some(c.clone())).collect(),
            columns_decoded: t.columns.clone(),
        });
        table_out = Some((part, x));
    }

    // ---- XML
    let nl = if spec.pretty { "\n  " } else { "" };
    let mut x = String::from("<?xml version=\"1.0\" encoding=\"UTF-8\" standalone=\"yes\"?>\n");
    x.push_str(&format!("<worksheet xmlns=\"{}\" xmlns:r=\"http://schemas.openxmlformats.org/officeDocument/2006/relationships\">", super::styles::NS_MAIN));
    if sh.dimension && !cells.is_empty() {
        let minc = cells.keys().map(|k| k.1).min().unwrap();
        let maxc = cells.keys().map(|k| k.1).max().unwrap();
        let minr = cells.keys().next().unwrap().0;
        let maxr = cells.keys().next_back().unwrap().0;
        x.push_str(&format!("{}<dimension ref=\"{}:{}\"/>", nl, a1(minc, minr), a1(maxc, maxr)));
    }
    if sh.views {
        x.push_str(&format!("{}<sheetViews><sheetView workbookViewId=\"0\"/></sheetViews>{}<sheetFormatPr defaultRowHeight=\"15\"/>", nl, nl));
    }
    // cols
    let mut colspecs: Vec<(u32, u32, &ColSpec)> = Vec::new();
    {
        let mut mins: Vec<(u32, &ColSpec)> = sh.cols.iter().map(|c| (COLS[pick_idx(c.min, COLS.len())], c)).collect();
        mins.sort_by_key(|m| m.0);
        mins.dedup_by_key(|m| m.0);
        for i in 0..mins.len() {
            let (mn, c) = mins[i];
            let mut mx = (mn + c.span as u32).min(super::MAX_COL);
            if i + 1 < mins.len() {
                mx = mx.min(mins[i + 1].0 - 1);
            }
            colspecs.push((mn, mx, c));
        }
    }
    let mut cols_m = Vec::new();
    if !colspecs.is_empty() {
        x.push_str(&format!("{}<cols>", nl));
        for (mn, mx, c) in &colspecs {
            let st = c.style.map(xf_pick).filter(|s| *s > 0);
            x.push_str(&format!(
                "<col min=\"{}\" max=\"{}\" width=\"{}\"{}{} customWidth=\"1\"/>",
                mn,
                mx,
                c.width,
                st.map(|s| format!(" style=\"{}\"", s)).unwrap_or_default(),
                if c.hidden { " hidden=\"1\"" } else { "" }
            ));
            cols_m.push(DCol { min: Some(*mn), max: Some(*mx), width: Some(c.width.to_string()), hidden: c.hidden, style: st, custom_width: true, best_fit: false });
        }
        x.push_str("</cols>");
    }
    // sheetData
    let mut model_cells: Vec<DCell> = Vec::new();
    let mut rows_m: Vec<DRow> = Vec::new();
    let mut row_numbers: Vec<u32> = cells.keys().map(|k| k.0).collect();
    row_numbers.extend(rows.keys().cloned());
    row_numbers.extend(extra_rows_xml.iter().map(|e| e.0));
    row_numbers.sort();
    row_numbers.dedup();
    if row_numbers.is_empty() {
        x.push_str(&format!("{}<sheetData/>", nl));
    } else {
        x.push_str(&format!("{}<sheetData>", nl));
        for row in row_numbers {
            if let Some((_, rx)) = extra_rows_xml.iter().find(|e| e.0 == row) {
                x.push_str(rx);
                rows_m.push(DRow { r: row, has_r: true, ..Default::default() });
                model_cells.extend(dirty_cells.iter().cloned());
                continue;
            }
            let meta = rows.get(&row).cloned().unwrap_or_default();
            let in_row: Vec<&OutCell> = cells.range((row, 0)..=(row, u32::MAX)).map(|(_, c)| c).collect();
            let mut attrs = format!("r=\"{}\"", row);
            let mut dr = DRow { r: row, has_r: true, ..Default::default() };
            if meta.spans && !in_row.is_empty() {
                let sp = format!("{}:{}", in_row[0].model.col, in_row[in_row.len() - 1].model.col);
                attrs.push_str(&format!(" spans=\"{}\"", sp));
                dr.spans = Some(sp);
            }
            if let Some(s) = meta.style {
                attrs.push_str(&format!(" s=\"{}\" customFormat=\"1\"", s));
                dr.s = Some(s);
                dr.custom_format = true;
            }
            if let Some(h) = meta.height {
                attrs.push_str(&format!(" ht=\"{}\" customHeight=\"1\"", h));
                dr.ht = Some(h.to_string());
                dr.custom_height = true;
            }
            if meta.hidden {
                attrs.push_str(" hidden=\"1\"");
                dr.hidden = true;
            }
            rows_m.push(dr);
            if in_row.is_empty() {
                x.push_str(&format!("{}<row {}/>", nl, attrs));
                continue;
            }
            x.push_str(&format!("{}<row {}>", nl, attrs));
            for c in in_row {
                if c.body.is_empty() {
                    x.push_str(&format!("<c {}/>", c.attrs));
                } else {
                    x.push_str(&format!("<c {}>{}{}</c>", c.attrs, c.body, if spec.pretty { "\n    " } else { "" }));
                }
                model_cells.push(c.model.clone());
            }
            x.push_str("</row>");
        }
        x.push_str(&format!("{}</sheetData>", nl));
    }
    // merges (rows 600.. so that nothing else is touched)
    let mut merged_m = Vec::new();
    if !sh.merges.is_empty() {
        let mut mx = String::new();
        for (i, (c, r, w, h)) in sh.merges.iter().enumerate() {
            let (c1, r1) = (1 + *c as u32, 600 + 10 * i as u32 + *r as u32);
            let rf = format!("{}:{}", a1(c1, r1), a1(c1 + *w as u32 + 1, r1 + *h as u32));
            mx.push_str(&format!("<mergeCell ref=\"{}\"/>", rf));
            merged_m.push(Some(rf));
        }
        x.push_str(&format!("{}<mergeCells count=\"{}\">{}</mergeCells>", nl, sh.merges.len(), mx));
    }
    if !links_xml.is_empty() {
        x.push_str(&format!("{}<hyperlinks>{}</hyperlinks>", nl, links_xml));
    }
    x.push_str(&format!("{}<pageMargins left=\"0.7\" right=\"0.7\" top=\"0.75\" bottom=\"0.75\" header=\"0.3\" footer=\"0.3\"/>", nl));
    x.push_str(&table_parts_xml);
    x.push_str(if spec.pretty { "\n</worksheet>" } else { "</worksheet>" });

    let model = DSheet {
        name: Some(sh.name.clone()),
        kind: "worksheet".into(),
        cells: model_cells,
        merged: merged_m,
        hyperlinks: links_m,
        tables: tables_m,
        cols: cols_m,
        rows: rows_m,
        ..Default::default()
    };
    SheetOut { xml: x, rels, table: table_out, model, excluded, shared_above_left: any_above_left }
}
