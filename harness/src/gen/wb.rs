//! Workbook spec (DESIGN 3.1): a serialisable description of a workbook, a builder that
//! applies it through the public API only, and strategies for its parts.
use crate::gen::text::*;
use proptest::prelude::*;
use serde::{Deserialize, Serialize};
use std::collections::BTreeMap;
use umya_spreadsheet::{RichText, Spreadsheet, TextElement};

/// f64 carried through JSON as its shortest round-trip decimal text (serde_json's float
/// parsing is not guaranteed to be exact without the float_roundtrip feature).
#[derive(Clone, Copy, PartialEq)]
pub struct Num(pub f64);

impl std::fmt::Debug for Num {
    fn fmt(&self, f: &mut std::fmt::Formatter) -> std::fmt::Result {
        write!(f, "{:?}", self.0)
    }
}
impl Serialize for Num {
    fn serialize<S: serde::Serializer>(&self, s: S) -> Result<S::Ok, S::Error> {
        s.serialize_str(&format!("{:?}", self.0))
    }
}
impl<'de> Deserialize<'de> for Num {
    fn deserialize<D: serde::Deserializer<'de>>(d: D) -> Result<Self, D::Error> {
        let s = String::deserialize(d)?;
        s.parse::<f64>().map(Num).map_err(serde::de::Error::custom)
    }
}

pub const ERRORS: [&str; 7] = ["#DIV/0!", "#N/A", "#NAME?", "#NULL!", "#NUM!", "#REF!", "#VALUE!"];

#[derive(Debug, Clone, Serialize, Deserialize, PartialEq)]
pub struct RunSpec {
    pub text: String,
    pub bold: bool,
    pub italic: bool,
    /// font size in points when given
    pub size: Option<u8>,
    pub font_name: Option<String>,
}

#[derive(Debug, Clone, Serialize, Deserialize, PartialEq)]
pub enum ValueSpec {
    Blank,
    Text(String),
    Rich(Vec<RunSpec>),
    Number(Num),
    Bool(bool),
    /// index into ERRORS
    Error(u8),
}

impl ValueSpec {
    pub fn kind(&self) -> &'static str {
        match self {
            ValueSpec::Blank => "blank",
            ValueSpec::Text(_) => "text",
            ValueSpec::Rich(_) => "rich",
            ValueSpec::Number(_) => "number",
            ValueSpec::Bool(_) => "bool",
            ValueSpec::Error(_) => "error",
        }
    }
    /// The value text the public getter shows for this value.
    pub fn text(&self) -> String {
        match self {
            ValueSpec::Blank => String::new(),
            ValueSpec::Text(s) => s.clone(),
            ValueSpec::Rich(runs) => runs.iter().map(|r| r.text.as_str()).collect(),
            ValueSpec::Number(n) => n.0.to_string(),
            ValueSpec::Bool(b) => if *b { "TRUE" } else { "FALSE" }.to_string(),
            ValueSpec::Error(i) => ERRORS[*i as usize % ERRORS.len()].to_string(),
        }
    }
}

#[derive(Debug, Clone, Serialize, Deserialize, PartialEq)]
pub struct CellSpec {
    pub col: u32,
    pub row: u32,
    pub value: ValueSpec,
    pub formula: Option<String>,
    /// place the cell as a ready-made `Cell` through `Worksheet::set_cell` instead of
    /// filling the one `get_cell_mut` returns (both are public ways to build a workbook)
    #[serde(default)]
    pub via_set_cell: bool,
}

#[derive(Debug, Clone, Serialize, Deserialize, PartialEq)]
pub struct SheetSpec {
    pub name: String,
    pub cells: Vec<CellSpec>,
}

impl SheetSpec {
    /// Cells by position; a later entry for the same position replaces an earlier one
    /// (exactly what applying them in order through the API does).
    pub fn cell_map(&self) -> BTreeMap<(u32, u32), &CellSpec> {
        let mut m = BTreeMap::new();
        for c in &self.cells {
            m.insert((c.row, c.col), c);
        }
        m
    }
}

#[derive(Debug, Clone, Serialize, Deserialize, PartialEq)]
pub struct WbSpec {
    pub sheets: Vec<SheetSpec>,
}

pub fn apply_value(cell: &mut umya_spreadsheet::Cell, v: &ValueSpec) {
    match v {
        ValueSpec::Blank => {
            cell.set_blank();
        }
        ValueSpec::Text(s) => {
            cell.set_value_string(s.clone());
        }
        ValueSpec::Rich(runs) => {
            let mut rt = RichText::default();
            for r in runs {
                let mut te = TextElement::default();
                te.set_text(r.text.clone());
                if r.bold || r.italic || r.size.is_some() || r.font_name.is_some() {
                    let f = te.get_font_mut();
                    if r.bold {
                        f.set_bold(true);
                    }
                    if r.italic {
                        f.set_italic(true);
                    }
                    if let Some(s) = r.size {
                        f.set_size(s as f64);
                    }
                    if let Some(n) = &r.font_name {
                        f.set_name(n.clone());
                    }
                }
                rt.add_rich_text_elements(te);
            }
            cell.set_rich_text(rt);
        }
        ValueSpec::Number(n) => {
            cell.set_value_number(n.0);
        }
        ValueSpec::Bool(b) => {
            cell.set_value_bool(*b);
        }
        ValueSpec::Error(i) => {
            // set_error keeps a formula, the other setters remove it: clear it first so that
            // all kinds behave alike; the formula (if any) is applied afterwards
            cell.set_blank();
            cell.set_error(ERRORS[*i as usize % ERRORS.len()]);
        }
    }
}

/// Build through the public API only.
pub fn build(spec: &WbSpec) -> Spreadsheet {
    let mut book = umya_spreadsheet::new_file_empty_worksheet();
    for s in &spec.sheets {
        let sheet = book.new_sheet(s.name.clone()).expect("generator produces distinct legal names");
        for c in &s.cells {
            if c.via_set_cell {
                let mut cell = umya_spreadsheet::Cell::default();
                cell.get_coordinate_mut().set_col_num(c.col).set_row_num(c.row);
                apply_value(&mut cell, &c.value);
                if let Some(f) = &c.formula {
                    cell.set_formula(f.clone());
                }
                sheet.set_cell(cell);
                continue;
            }
            let cell = sheet.get_cell_mut((c.col, c.row));
            apply_value(cell, &c.value);
            if let Some(f) = &c.formula {
                cell.set_formula(f.clone());
            }
        }
    }
    book
}

// ---------------------------------------------------------------------------------------
// strategies

pub fn col_pos() -> BoxedStrategy<u32> {
    prop_oneof![
        5 => 1u32..=8,
        2 => prop::sample::select(vec![1u32, 2, 26, 27, 28, 52, 53, 702, 703, 704, 16383, 16384]),
        1 => 1u32..=16384,
    ]
    .boxed()
}
pub fn row_pos() -> BoxedStrategy<u32> {
    prop_oneof![
        5 => 1u32..=10,
        2 => prop::sample::select(vec![1u32, 2, 99, 100, 65536, 1048575, 1048576]),
        1 => 1u32..=1048576,
    ]
    .boxed()
}

pub fn finite_f64() -> BoxedStrategy<f64> {
    prop_oneof![
        4 => (-1000i64..1000).prop_map(|i| i as f64),
        3 => (-100000i64..100000, 0u32..6).prop_map(|(m, e)| m as f64 / 10f64.powi(e as i32)),
        2 => any::<i64>().prop_map(|i| i as f64),
        2 => (1u64..1_000_000_000_000_000_000, -30i32..30).prop_map(|(m, e)| format!("{}e{}", m, e).parse::<f64>().unwrap()),
        2 => prop::sample::select(vec![
            0.0, -0.0, 0.1, 0.2, 0.1 + 0.2, 1.0 / 3.0, 2.0 / 3.0, 1e15, 1e16, 1e21, 1e22, 1e-5, 1e-7, 123456789012345.0, 1234567890123456.0,
            12345678901234567.0, 9007199254740992.0, 9007199254740993.0, f64::MIN_POSITIVE, f64::MAX, f64::MIN, f64::EPSILON, 5e-324,
            4.9406564584124654e-324, 2.2250738585072011e-308, 1.7976931348623157e308, 0.30000000000000004, 1.0000000000000002, 43831.5,
            -1.5, 2.5, 1e100, 1.5e-10,
        ]),
        2 => any::<u64>().prop_map(f64::from_bits).prop_filter("finite", |f| f.is_finite()),
    ]
    .boxed()
}

pub fn run_spec() -> BoxedStrategy<RunSpec> {
    (
        nonempty_text(12),
        any::<bool>(),
        any::<bool>(),
        prop::option::weighted(0.3, 6u8..40),
        prop::option::weighted(0.3, prop::sample::select(vec!["Arial", "Calibri", "ＭＳ Ｐゴシック", "A&B"]).prop_map(|s| s.to_string())),
    )
        .prop_map(|(text, bold, italic, size, font_name)| RunSpec {
            text,
            bold,
            italic,
            size,
            font_name,
        })
        .boxed()
}

/// A small fixed pool of well-formed formulas that exercise XML escaping and quoting.
/// (The generated grammar of gen::formula is used where available.)
pub fn simple_formula() -> BoxedStrategy<String> {
    prop::sample::select(vec![
        "A1+1",
        "SUM(A1:B2)",
        "IF(A1<>B1,\"<&>\",\"'\")",
        "A1&\"x y\"",
        "\"a\"\"b\"",
        "1<2",
        "A1>=B2",
        "$A$1*B$2",
        "Sheet1!A1",
        "TRUE",
        "1/0",
        "\" lead\"&A1&\"trail \"",
        "CONCATENATE(\"日本\",\"😀\")",
        "-A1%",
        "NOW()",
    ])
    .prop_map(|s| s.to_string())
    .boxed()
}

pub fn value_spec(max_text: usize) -> BoxedStrategy<ValueSpec> {
    prop_oneof![
        1 => Just(ValueSpec::Blank),
        6 => plain_text(max_text).prop_map(ValueSpec::Text),
        1 => cr_text().prop_map(ValueSpec::Text),
        1 => c0_text().prop_map(ValueSpec::Text),
        2 => prop::collection::vec(run_spec(), 1..=3).prop_map(ValueSpec::Rich),
        5 => finite_f64().prop_map(|f| ValueSpec::Number(Num(f))),
        1 => any::<bool>().prop_map(ValueSpec::Bool),
        1 => (0u8..7).prop_map(ValueSpec::Error),
    ]
    .boxed()
}

pub fn cell_spec(max_text: usize) -> BoxedStrategy<CellSpec> {
    (col_pos(), row_pos(), value_spec(max_text), prop::option::weighted(0.25, simple_formula()), prop::bool::weighted(0.2))
        .prop_map(|(col, row, value, formula, via_set_cell)| {
            // a formula's cached result is a plain value in the file format: rich text cannot
            // be a cached result, so that combination is not generated
            let formula = if matches!(value, ValueSpec::Rich(_)) { None } else { formula };
            CellSpec { col, row, value, formula, via_set_cell }
        })
        .boxed()
}

pub fn sheet_spec(name: String, max_cells: usize, max_text: usize) -> BoxedStrategy<SheetSpec> {
    prop::collection::vec(cell_spec(max_text), 0..=max_cells)
        .prop_map(move |cells| SheetSpec { name: name.clone(), cells })
        .boxed()
}

pub fn wb_spec(max_sheets: usize, max_cells: usize, max_text: usize) -> BoxedStrategy<WbSpec> {
    sheet_names(1, max_sheets)
        .prop_flat_map(move |names| {
            let sheets: Vec<BoxedStrategy<SheetSpec>> = names.into_iter().map(|n| sheet_spec(n, max_cells, max_text)).collect();
            sheets
        })
        .prop_map(|sheets| WbSpec { sheets })
        .boxed()
}
