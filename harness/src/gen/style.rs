//! Style specs (DESIGN 4 C05): a serialisable description of one cell format over the full
//! product of the attributes the statement of C05 names, `apply` (spec -> `Style`, public API
//! only), the *effective projection* of a `Style` read through public getters, the
//! hand-written expectation of that projection, and strategies that build FAMILIES of
//! near-duplicate styles (single-attribute neighbours and adversarial neighbours for
//! concatenated hash keys).
//!
//! ## The projection (`StyleProj`) and its normalisations
//!
//! `StyleProj` is a fixed-order list of 29 named attributes, each rendered as a string:
//! exactly the attributes the statement lists (font name/size/bold/italic/underline/strike/
//! colour; fill pattern/fg/bg; style+colour of the left/right/top/bottom/diagonal edge and
//! the two diagonal flags; horizontal/vertical/wrap/rotation; number-format CODE; locked/
//! hidden).  Nothing else of a `Style` is compared (not: font family/charset/scheme/
//! vertAlign, numFmtId, xfId, the vertical/horizontal "inside" edges that only exist in
//! differential formats, presence-vs-absence of an attribute).  A gradient fill (angle + colour
//! stops) is a fill too: it is folded into the one attribute `fill.pattern` as
//! `gradient deg=.. [pos=colour; ..]` with fg/bg `none`.
//!
//! Normalisations (each one is needed because the format itself makes the two sides mean the
//! same; without them the oracle would demand more than the statement):
//!
//! N1 *absent component = workbook default of that component.*  `get_font()==None` stands for
//!    the font `Style::get_default_value()` carries (what `new_file()` registers as fonts[0]:
//!    Calibri 11, theme colour 1), `get_fill()==None` for its fill (fills[0]: pattern none),
//!    `get_borders()==None` for the empty border, `get_numbering_format()==None` for
//!    `General`, `get_alignment()==None` for general/bottom/no wrap/0, `get_protection()==
//!    None` for locked=true, hidden=false (ECMA-376 defaults of CT_CellProtection).  A
//!    reloaded style legitimately materialises these (an `xf` always names a fontId/fillId/
//!    borderId/numFmtId, and absent applyX means "applied").  The defaults are read at run
//!    time from `Style::get_default_value()`, not hard-coded.
//! N2 *absent attribute = its default value.*  bold/italic/strike/wrap absent = false,
//!    underline absent = none, rotation absent = 0, diagonal flags absent = false, pattern
//!    type absent = none, edge style absent = none, tint absent = 0.  (`Some(false)` and
//!    `None` are the same formatting.)
//! N3 *colours are compared by meaning:* an `indexed` colour inside the 64-entry default
//!    palette is the ARGB value of that palette slot (`Color::set_argb` itself turns a
//!    palette ARGB into `indexed`, so "FFFF0000" and indexed 2 are one colour); `indexed`
//!    outside the palette (64/65 = system colours) stays `idx:n`; theme colours are
//!    `theme:n`; no colour at all is `none`.  Tint is compared bit-exactly (f64 bits): the
//!    library writes the shortest round-trip decimal, so no tolerance is needed or used.
//! N4 the number format is compared by CODE only (the statement says "number-format code");
//!    several built-in ids carry the same code and which id `set_format_code` picks is an
//!    internal matter.
//! N5 `Protection::get_locked()` cannot tell "absent" from `false`; specs therefore always
//!    set both `locked` and `hidden` when they set a protection at all, so the getter value
//!    is the effective value.  (Not generated: a protection with only `hidden` set.)
//!
//! Sizes, heights, widths: f64 compared by bits.
use crate::gen::wb::Num;
use proptest::prelude::*;
use serde::{Deserialize, Serialize};
use std::str::FromStr;
use umya_spreadsheet::{
    Alignment, Border, Color, EnumTrait, Fill, Font, GradientStop, HorizontalAlignmentValues, NumberingFormat,
    PatternFill, PatternValues, Protection, Style, UnderlineValues, VerticalAlignmentRunValues, VerticalAlignmentValues,
};

// ---------------------------------------------------------------------------------------
// alphabets

pub const FONT_NAMES: [&str; 16] = [
    "Calibri",
    "Arial",
    "Arial1",
    "Arial 1",
    "Times New Roman",
    "Univers 5",
    "Univers 55",
    "ＭＳ Ｐゴシック",
    "A&B",
    "<Font>",
    "Courier \"New\"",
    "O'Neil",
    "Segoe UI Emoji 😀",
    "calibri",
    "Arial ",
    "&amp;",
];
pub const FONT_SIZES: [f64; 14] = [11.0, 1.0, 1.5, 8.0, 9.0, 10.0, 10.5, 12.0, 11.25, 14.0, 72.0, 409.0, 55.0, 5.0];
/// 0 = attribute absent, 5 = explicit "none"
pub const UNDERLINES: [&str; 6] = ["", "single", "double", "singleAccounting", "doubleAccounting", "none"];
pub const PATTERNS: [&str; 19] = [
    "none",
    "solid",
    "gray125",
    "gray0625",
    "darkGray",
    "mediumGray",
    "lightGray",
    "darkHorizontal",
    "darkVertical",
    "darkDown",
    "darkUp",
    "darkGrid",
    "darkTrellis",
    "lightHorizontal",
    "lightVertical",
    "lightDown",
    "lightUp",
    "lightGrid",
    "lightTrellis",
];
pub const BORDER_STYLES: [&str; 14] = [
    "none",
    "thin",
    "medium",
    "thick",
    "dashed",
    "dotted",
    "double",
    "hair",
    "dashDot",
    "dashDotDot",
    "mediumDashed",
    "mediumDashDot",
    "mediumDashDotDot",
    "slantDashDot",
];
pub const HORIZONTALS: [&str; 8] = ["general", "left", "center", "right", "fill", "justify", "centerContinuous", "distributed"];
pub const VERTICALS: [&str; 5] = ["bottom", "top", "center", "justify", "distributed"];
pub const ROTATIONS: [u32; 9] = [0, 1, 45, 90, 91, 135, 180, 255, 12];
/// built-in number format ids the library knows (`set_number_format_id` panics on others)
pub const BUILTIN_IDS: [u32; 30] = [
    0, 1, 2, 3, 4, 9, 10, 11, 12, 13, 14, 15, 16, 17, 18, 19, 20, 21, 22, 37, 38, 39, 40, 44, 45, 46, 47, 48, 49, 30,
];
pub const CUSTOM_CODES: [&str; 24] = [
    "0.0",
    "\"<\"0.0;[Red]\"&\"0",
    "#,##0.00 \"€\"",
    "yyyy-mm-dd",
    "0.00;[Red]-0.00",
    "0.000",
    "0.0000",
    "0.0 ",
    " 0.0",
    "[$-409]d-mmm;@",
    "0\"&amp;\"",
    "0\"&lt;\"",
    "0 \"x>y\"",
    "0 \"it's\"",
    "0.0E+0",
    "0.0e+0",
    "\"a\"\"b\"0",
    "#\\<0",
    "0.00",
    "General",
    "m/d/yy",
    "@",
    "YYYY-MM-DD",
    "0.0;\"日本\"",
];
pub const ARGBS: [&str; 12] = [
    "FFFF0000", "FF000000", "FFFFFFFF", "FF123456", "FF654321", "80FF0000", "00000000", "FFABCDEF", "FF800080", "FF010203", "FF112233",
    "FFFFFF00",
];
pub const TINTS: [f64; 8] = [0.5, -0.5, 0.1, 0.39997558519241921, -0.249977111117893, 0.7999816888943144, -0.1, 1.0];

// ---------------------------------------------------------------------------------------
// spec

#[derive(Debug, Clone, Serialize, Deserialize, PartialEq)]
pub enum ColorKind {
    Argb(String),
    Theme(u32),
    Indexed(u32),
}

#[derive(Debug, Clone, Serialize, Deserialize, PartialEq)]
pub struct ColorSpec {
    pub kind: ColorKind,
    pub tint: Option<Num>,
}

#[derive(Debug, Clone, Serialize, Deserialize, PartialEq)]
pub struct FontSpec {
    pub name: String,
    pub size: Num,
    /// font family number (not part of the projection; it sits between size and bold in the
    /// library's font key, so it is needed for the adversarial size x family neighbours)
    pub family: Option<i32>,
    pub bold: Option<bool>,
    pub italic: Option<bool>,
    /// index into UNDERLINES
    pub underline: u8,
    pub strike: Option<bool>,
    pub color: Option<ColorSpec>,
    /// CARRIER attributes: the statement does not name them, so they are NOT part of the
    /// projection and never compared; they are set so that the named attributes are checked
    /// in their presence (they are fields of the font key and elements of <font>).
    /// vertAlign: 1 baseline, 2 superscript, 3 subscript
    #[serde(default)]
    pub vert_align: Option<u8>,
    #[serde(default)]
    pub charset: Option<i32>,
    /// 1 major, 2 minor, 3 none (set_name itself sets "none")
    #[serde(default)]
    pub scheme: Option<u8>,
}

#[derive(Debug, Clone, Serialize, Deserialize, PartialEq)]
pub struct FillSpec {
    /// index into PATTERNS; None = patternType absent
    pub pattern: Option<u8>,
    pub fg: Option<ColorSpec>,
    pub bg: Option<ColorSpec>,
    /// when present the fill is a gradient fill and pattern/fg/bg are not used
    #[serde(default)]
    pub gradient: Option<GradSpec>,
}

/// Linear gradient fill: angle and colour stops (position 0..1, colour).
#[derive(Debug, Clone, Serialize, Deserialize, PartialEq)]
pub struct GradSpec {
    pub degree: Num,
    pub stops: Vec<(Num, Option<ColorSpec>)>,
}

#[derive(Debug, Clone, Serialize, Deserialize, PartialEq, Default)]
pub struct EdgeSpec {
    /// index into BORDER_STYLES; None = style absent
    pub style: Option<u8>,
    pub color: Option<ColorSpec>,
}

#[derive(Debug, Clone, Serialize, Deserialize, PartialEq, Default)]
pub struct BordersSpec {
    pub left: EdgeSpec,
    pub right: EdgeSpec,
    pub top: EdgeSpec,
    pub bottom: EdgeSpec,
    pub diagonal: EdgeSpec,
    pub diag_up: Option<bool>,
    pub diag_down: Option<bool>,
}

#[derive(Debug, Clone, Serialize, Deserialize, PartialEq, Default)]
pub struct AlignSpec {
    pub horizontal: Option<u8>,
    pub vertical: Option<u8>,
    pub wrap: Option<bool>,
    pub rotation: Option<u32>,
}

#[derive(Debug, Clone, Serialize, Deserialize, PartialEq)]
pub enum NumFmtSpec {
    /// `set_number_format_id(id)`, id from the library's built-in table (`builtin_table()`)
    Builtin(u32),
    /// `set_format_code(code)`
    Code(String),
}

#[derive(Debug, Clone, Serialize, Deserialize, PartialEq)]
pub struct ProtSpec {
    pub locked: bool,
    pub hidden: bool,
}

#[derive(Debug, Clone, Serialize, Deserialize, PartialEq, Default)]
pub struct StyleSpec {
    pub font: Option<FontSpec>,
    pub fill: Option<FillSpec>,
    pub borders: Option<BordersSpec>,
    pub align: Option<AlignSpec>,
    pub numfmt: Option<NumFmtSpec>,
    pub prot: Option<ProtSpec>,
}

// ---------------------------------------------------------------------------------------
// apply: spec -> Style, public API only

pub fn apply_color(c: &ColorSpec) -> Color {
    let mut col = Color::default();
    match &c.kind {
        ColorKind::Argb(s) => {
            col.set_argb(s.clone());
        }
        ColorKind::Theme(t) => {
            col.set_theme_index(*t);
        }
        ColorKind::Indexed(i) => {
            col.set_indexed(*i);
        }
    }
    if let Some(t) = &c.tint {
        col.set_tint(t.0);
    }
    col
}

fn apply_edge(b: &mut Border, e: &EdgeSpec) {
    if let Some(s) = e.style {
        b.set_border_style(BORDER_STYLES[s as usize % BORDER_STYLES.len()]);
    }
    if let Some(c) = &e.color {
        b.set_color(apply_color(c));
    }
}

pub fn apply(s: &StyleSpec) -> Style {
    let mut st = Style::default();
    if let Some(f) = &s.font {
        let mut font = Font::default();
        font.set_name(f.name.clone());
        font.set_size(f.size.0);
        if let Some(v) = f.family {
            font.set_family(v);
        }
        if let Some(v) = f.bold {
            font.set_bold(v);
        }
        if let Some(v) = f.italic {
            font.set_italic(v);
        }
        let u = UNDERLINES[f.underline as usize % UNDERLINES.len()];
        if !u.is_empty() {
            font.set_underline(u);
        }
        if let Some(v) = f.strike {
            font.set_strikethrough(v);
        }
        if let Some(c) = &f.color {
            font.set_color(apply_color(c));
        }
        if let Some(v) = f.vert_align {
            let val = match v % 3 {
                1 => VerticalAlignmentRunValues::Baseline,
                2 => VerticalAlignmentRunValues::Superscript,
                _ => VerticalAlignmentRunValues::Subscript,
            };
            font.get_vertical_text_alignment_mut().set_val(val);
        }
        if let Some(v) = f.charset {
            font.set_charset(v);
        }
        if let Some(v) = f.scheme {
            font.set_scheme(["none", "major", "minor"][v as usize % 3]);
        }
        st.set_font(font);
    }
    if let Some(FillSpec { gradient: Some(g), .. }) = &s.fill {
        let mut fill = Fill::default();
        let gf = fill.get_gradient_fill_mut();
        gf.set_degree(g.degree.0);
        for (pos, col) in &g.stops {
            let mut stop = GradientStop::default();
            stop.set_position(pos.0);
            if let Some(c) = col {
                stop.set_color(apply_color(c));
            }
            gf.set_gradient_stop(stop);
        }
        st.set_fill(fill);
    } else if let Some(f) = &s.fill {
        let mut pf = PatternFill::default();
        if let Some(p) = f.pattern {
            pf.set_pattern_type(PatternValues::from_str(PATTERNS[p as usize % PATTERNS.len()]).unwrap());
        }
        // get_*_color_mut, not set_foreground_color: the latter silently rewrites the pattern
        // type (none -> solid), which is API convenience and not what a spec means
        if let Some(c) = &f.fg {
            *pf.get_foreground_color_mut() = apply_color(c);
        }
        if let Some(c) = &f.bg {
            *pf.get_background_color_mut() = apply_color(c);
        }
        let mut fill = Fill::default();
        fill.set_pattern_fill(pf);
        st.set_fill(fill);
    }
    if let Some(b) = &s.borders {
        // `Borders` itself is not exported; get_borders_mut() creates the empty border
        let bs = st.get_borders_mut();
        apply_edge(bs.get_left_mut(), &b.left);
        apply_edge(bs.get_right_mut(), &b.right);
        apply_edge(bs.get_top_mut(), &b.top);
        apply_edge(bs.get_bottom_mut(), &b.bottom);
        apply_edge(bs.get_diagonal_mut(), &b.diagonal);
        if let Some(v) = b.diag_up {
            bs.set_diagonal_up(v);
        }
        if let Some(v) = b.diag_down {
            bs.set_diagonal_down(v);
        }
    }
    if let Some(a) = &s.align {
        let mut al = Alignment::default();
        if let Some(h) = a.horizontal {
            al.set_horizontal(HorizontalAlignmentValues::from_str(HORIZONTALS[h as usize % HORIZONTALS.len()]).unwrap());
        }
        if let Some(v) = a.vertical {
            al.set_vertical(VerticalAlignmentValues::from_str(VERTICALS[v as usize % VERTICALS.len()]).unwrap());
        }
        if let Some(w) = a.wrap {
            al.set_wrap_text(w);
        }
        if let Some(r) = a.rotation {
            al.set_text_rotation(r);
        }
        st.set_alignment(al);
    }
    if let Some(n) = &s.numfmt {
        let mut nf = NumberingFormat::default();
        match n {
            NumFmtSpec::Builtin(id) => {
                nf.set_number_format_id(*id);
            }
            NumFmtSpec::Code(c) => {
                nf.set_format_code(c.clone());
            }
        }
        st.set_numbering_format(nf);
    }
    if let Some(p) = &s.prot {
        let mut pr = Protection::default();
        pr.set_locked(p.locked);
        pr.set_hidden(p.hidden);
        st.set_protection(pr);
    }
    st
}

// ---------------------------------------------------------------------------------------
// setter histories: reaching a style through a SEQUENCE of public setter calls on live objects
//
// `apply` hands finished objects to `set_font`/`set_fill`/...  Real callers usually edit in
// place: `style.get_font_mut().get_color_mut().set_argb(..)`, often on a style, font, fill or
// colour object that already carries something else.  `apply_in_place` writes EVERY projected
// attribute of the target spec through the `get_*_mut()` accessors of a live `Style`, so that
// whatever earlier calls left behind must not show: the expectation stays `expected(target)`.
//
// Only call paths whose overwrite semantics the API itself promises are used (checked on the
// unmodified tree: zero pre-save mismatches over all seeds / tiers):
//  * component absent in the target -> `remove_font/fill/borders/alignment/numbering_format/
//    protection`;
//  * scalar attributes -> their setter with the target value, or with the format default when
//    the target leaves it absent (N2: `set_bold(false)`, `set_underline("none")`,
//    `set_pattern_type(None)`, `set_border_style("none")`, `set_text_rotation(0)` ...);
//  * colours -> `set_argb` / `set_theme_index` / `set_indexed` on the SAME `Color` object
//    (each of them documents by its code that it clears the other two kinds); the tint is not
//    touched by those setters, so it is always written explicitly (`set_tint(t)` or
//    `set_tint(0.0)` = no tint, N2); "no colour" -> `set_color(Color::default())` /
//    `remove_foreground_color()` / `remove_background_color()`;
//  * fill kind -> `get_pattern_fill_mut()` / `get_gradient_fill_mut()` (each creates its kind
//    and drops the other one); gradient stops are cleared and pushed again;
//  * number format -> `set_number_format_id` / `set_format_code` on the same object.
// NOT used on the target (an earlier call legitimately changes the meaning of a later one):
// `PatternFill::set_foreground_color` (rewrites the pattern type), `Style::
// set_background_color*` (keeps a tint the previous colour had).  They ARE used to build the
// prior state, where only "something was there before" matters.

/// How the `Style` value of a spec is reached.
#[derive(Debug, Clone, Serialize, Deserialize, PartialEq, Default)]
pub enum Hist {
    /// `apply`: finished component objects handed to `set_font` / `set_fill` / ...
    #[default]
    Plain,
    /// `apply_in_place` on a fresh `Style::default()` (accessors create the default components)
    InPlace,
    /// first the prior spec in place (+ `conv`enience calls), then the target in place, on the
    /// same live objects
    Over { prior: Box<StyleSpec>, conv: u8 },
}

fn set_color_in_place(c: &mut Color, t: &ColorSpec) {
    match &t.kind {
        ColorKind::Argb(s) => {
            c.set_argb(s.clone());
        }
        ColorKind::Theme(n) => {
            c.set_theme_index(*n);
        }
        ColorKind::Indexed(n) => {
            c.set_indexed(*n);
        }
    }
    match &t.tint {
        Some(x) => {
            c.set_tint(x.0);
        }
        None => {
            if *c.get_tint() != 0.0 {
                c.set_tint(0.0);
            }
        }
    }
}

fn edge_in_place(b: &mut Border, e: &EdgeSpec) {
    b.set_border_style(e.style.map_or("none", |s| BORDER_STYLES[s as usize % BORDER_STYLES.len()]));
    match &e.color {
        Some(c) => set_color_in_place(b.get_color_mut(), c),
        None => {
            b.set_color(Color::default());
        }
    }
}

/// Write every projected attribute of `s` onto the live `st` through the `get_*_mut()`
/// accessors (see the block comment above).
pub fn apply_in_place(st: &mut Style, s: &StyleSpec) {
    match &s.font {
        None => {
            st.remove_font();
        }
        Some(f) => {
            let font = st.get_font_mut();
            font.set_name(f.name.clone());
            font.set_size(f.size.0);
            if let Some(v) = f.family {
                font.set_family(v);
            }
            font.set_bold(f.bold.unwrap_or(false));
            font.set_italic(f.italic.unwrap_or(false));
            let u = UNDERLINES[f.underline as usize % UNDERLINES.len()];
            font.set_underline(if u.is_empty() { "none" } else { u });
            font.set_strikethrough(f.strike.unwrap_or(false));
            match &f.color {
                Some(c) => set_color_in_place(font.get_color_mut(), c),
                None => {
                    font.set_color(Color::default());
                }
            }
            if let Some(v) = f.vert_align {
                let val = match v % 3 {
                    1 => VerticalAlignmentRunValues::Baseline,
                    2 => VerticalAlignmentRunValues::Superscript,
                    _ => VerticalAlignmentRunValues::Subscript,
                };
                font.get_vertical_text_alignment_mut().set_val(val);
            }
            if let Some(v) = f.charset {
                font.set_charset(v);
            }
            if let Some(v) = f.scheme {
                font.set_scheme(["none", "major", "minor"][v as usize % 3]);
            }
        }
    }
    match &s.fill {
        None => {
            st.remove_fill();
        }
        Some(FillSpec { gradient: Some(g), .. }) => {
            let gf = st.get_fill_mut().get_gradient_fill_mut();
            gf.set_degree(g.degree.0);
            gf.get_gradient_stop_mut().clear();
            for (pos, col) in &g.stops {
                let mut stop = GradientStop::default();
                stop.set_position(pos.0);
                if let Some(c) = col {
                    set_color_in_place(stop.get_color_mut(), c);
                }
                gf.set_gradient_stop(stop);
            }
        }
        Some(f) => {
            let pf = st.get_fill_mut().get_pattern_fill_mut();
            pf.set_pattern_type(PatternValues::from_str(f.pattern.map_or("none", |p| PATTERNS[p as usize % PATTERNS.len()])).unwrap());
            match &f.fg {
                Some(c) => set_color_in_place(pf.get_foreground_color_mut(), c),
                None => {
                    pf.remove_foreground_color();
                }
            }
            match &f.bg {
                Some(c) => set_color_in_place(pf.get_background_color_mut(), c),
                None => {
                    pf.remove_background_color();
                }
            }
        }
    }
    match &s.borders {
        None => {
            st.remove_borders();
        }
        Some(b) => {
            let bs = st.get_borders_mut();
            edge_in_place(bs.get_left_mut(), &b.left);
            edge_in_place(bs.get_right_mut(), &b.right);
            edge_in_place(bs.get_top_mut(), &b.top);
            edge_in_place(bs.get_bottom_mut(), &b.bottom);
            edge_in_place(bs.get_diagonal_mut(), &b.diagonal);
            bs.set_diagonal_up(b.diag_up.unwrap_or(false));
            bs.set_diagonal_down(b.diag_down.unwrap_or(false));
        }
    }
    match &s.align {
        None => {
            st.remove_alignment();
        }
        Some(a) => {
            let al = st.get_alignment_mut();
            al.set_horizontal(HorizontalAlignmentValues::from_str(a.horizontal.map_or("general", |h| HORIZONTALS[h as usize % HORIZONTALS.len()])).unwrap());
            al.set_vertical(VerticalAlignmentValues::from_str(a.vertical.map_or("bottom", |v| VERTICALS[v as usize % VERTICALS.len()])).unwrap());
            al.set_wrap_text(a.wrap.unwrap_or(false));
            al.set_text_rotation(a.rotation.unwrap_or(0));
        }
    }
    match &s.numfmt {
        None => {
            st.remove_numbering_format();
        }
        Some(n) => {
            let nf = st.get_numbering_format_mut();
            match n {
                NumFmtSpec::Builtin(id) => {
                    nf.set_number_format_id(*id);
                }
                NumFmtSpec::Code(c) => {
                    nf.set_format_code(c.clone());
                }
            }
        }
    }
    match &s.prot {
        None => {
            st.remove_protection();
        }
        Some(p) => {
            let pr = st.get_protection_mut();
            pr.set_locked(p.locked);
            pr.set_hidden(p.hidden);
        }
    }
}

/// Convenience calls that leave state behind (only ever used BEFORE the target is written).
pub fn leave_state(st: &mut Style, conv: u8) {
    const PAL: [&str; 4] = ["FFFF0000", "FFFFFF00", "FF000000", "FFFFFFFF"]; // palette colours
    if conv & 1 != 0 {
        st.set_background_color(PAL[(conv >> 4) as usize % 4]);
    }
    if conv & 2 != 0 {
        st.get_font_mut().get_color_mut().set_argb(PAL[(conv >> 5) as usize % 4]);
    }
    if conv & 4 != 0 {
        let b = st.get_borders_mut().get_bottom_mut();
        b.set_border_style("thin");
        b.get_color_mut().set_argb(PAL[(conv >> 6) as usize % 4]);
    }
    if conv & 8 != 0 {
        st.set_background_color_with_pattern("FF00FF00", "FF0000FF", PatternValues::DarkGrid);
    }
}

/// The `Style` value of `target`, reached the way `hist` says.
pub fn build_style(target: &StyleSpec, hist: &Hist) -> Style {
    match hist {
        Hist::Plain => apply(target),
        Hist::InPlace => {
            let mut st = Style::default();
            apply_in_place(&mut st, target);
            st
        }
        Hist::Over { prior, conv } => {
            let mut st = Style::default();
            apply_in_place(&mut st, prior);
            leave_state(&mut st, *conv);
            apply_in_place(&mut st, target);
            st
        }
    }
}

fn flip_color(c: &Option<ColorSpec>, v: u8) -> Option<ColorSpec> {
    // another KIND than the target's: palette argb / arbitrary argb / theme / indexed, with a
    // tint where the target has none
    let tint = match c {
        Some(ColorSpec { tint: None, .. }) | None => Some(Num(0.5)),
        _ => None,
    };
    let kind = match (c.as_ref().map(|c| &c.kind), v % 3) {
        (Some(ColorKind::Argb(s)), 0) if palette_index(s).is_none() => ColorKind::Argb("FFFF0000".to_string()),
        (Some(ColorKind::Argb(_)), 0) => ColorKind::Argb("FF13579B".to_string()),
        (Some(ColorKind::Argb(_)), 1) => ColorKind::Theme(4),
        (Some(ColorKind::Argb(_)), _) => ColorKind::Indexed(2),
        (Some(ColorKind::Theme(_)), 0) => ColorKind::Indexed(5),
        (Some(ColorKind::Theme(_)), _) => ColorKind::Argb("FFFFFF00".to_string()),
        (Some(ColorKind::Indexed(_)), 0) => ColorKind::Theme(3),
        (Some(ColorKind::Indexed(_)), _) => ColorKind::Argb("FF2468AC".to_string()),
        (None, 0) => ColorKind::Argb("FFFF0000".to_string()),
        (None, 1) => ColorKind::Theme(5),
        (None, _) => ColorKind::Indexed(3),
    };
    Some(ColorSpec { kind, tint })
}

fn palette_index(argb: &str) -> Option<u32> {
    (0u32..64).find(|i| palette(*i) == argb)
}

/// A prior state made to clash with `target` in every component: each component is present,
/// every colour has another kind (and a tint where the target has none), the fill has the
/// other fill kind (pattern <-> gradient), border styles / alignment / protection differ, the
/// number format is built-in where the target's is custom and vice versa.
pub fn clash(target: &StyleSpec, v: u8) -> StyleSpec {
    let mut p = target.clone();
    let f = p.font.get_or_insert_with(default_font_spec);
    f.name = if f.name == "Arial" { "Calibri".to_string() } else { "Arial".to_string() };
    f.size = Num(if f.size.0 == 20.0 { 21.0 } else { 20.0 });
    f.bold = Some(!f.bold.unwrap_or(false));
    f.italic = Some(!f.italic.unwrap_or(false));
    f.underline = if f.underline == 2 { 1 } else { 2 };
    f.strike = Some(!f.strike.unwrap_or(false));
    f.color = flip_color(&f.color, v);
    let tf = target.fill.clone().unwrap_or(FillSpec { pattern: None, fg: None, bg: None, gradient: None });
    p.fill = Some(if tf.gradient.is_some() {
        FillSpec { pattern: Some(1 + v % 18), fg: flip_color(&None, v), bg: flip_color(&None, v.wrapping_add(1)), gradient: None }
    } else if v % 2 == 0 {
        FillSpec {
            pattern: None,
            fg: None,
            bg: None,
            gradient: Some(GradSpec { degree: Num(90.0), stops: vec![(Num(0.0), flip_color(&tf.fg, v)), (Num(1.0), flip_color(&tf.bg, v))] }),
        }
    } else {
        FillSpec { pattern: Some(if tf.pattern == Some(1) { 4 } else { 1 }), fg: flip_color(&tf.fg, v), bg: flip_color(&tf.bg, v), gradient: None }
    });
    let tb = target.borders.clone().unwrap_or_default();
    let mut b = BordersSpec::default();
    for e in 0..5 {
        let te = edge_mut(&mut tb.clone(), e).clone();
        *edge_mut(&mut b, e) = EdgeSpec { style: Some(if te.style == Some(2) { 3 } else { 2 }), color: flip_color(&te.color, v.wrapping_add(e as u8)) };
    }
    b.diag_up = Some(!tb.diag_up.unwrap_or(false));
    b.diag_down = Some(!tb.diag_down.unwrap_or(false));
    p.borders = Some(b);
    let ta = target.align.clone().unwrap_or_default();
    p.align = Some(AlignSpec {
        horizontal: Some(if ta.horizontal == Some(2) { 3 } else { 2 }),
        vertical: Some(if ta.vertical == Some(1) { 2 } else { 1 }),
        wrap: Some(!ta.wrap.unwrap_or(false)),
        rotation: Some(if ta.rotation == Some(45) { 90 } else { 45 }),
    });
    p.numfmt = Some(match &target.numfmt {
        Some(NumFmtSpec::Code(c)) if !builtin_table().iter().any(|(_, b)| b == c) => NumFmtSpec::Builtin(if v % 2 == 0 { 14 } else { 2 }),
        _ => NumFmtSpec::Code("0.000 \"x\"".to_string()),
    });
    let tp = target.prot.clone().unwrap_or(ProtSpec { locked: true, hidden: false });
    p.prot = Some(ProtSpec { locked: !tp.locked, hidden: !tp.hidden });
    p
}

/// History for style number `i` of a set, decided by one raw value: half of the styles are
/// built the plain way, the rest in place: on a fresh style, over a clashing prior, over a
/// single-attribute neighbour, or over another style of the same set.
pub fn hist_for(styles: &[StyleSpec], i: usize, raw: u16) -> Hist {
    let conv = (raw >> 8) as u8;
    let v = (raw >> 4) as u8;
    match raw % 10 {
        0..=4 => Hist::Plain,
        5 => Hist::InPlace,
        6 | 7 => Hist::Over { prior: Box::new(clash(&styles[i], v)), conv: if raw % 10 == 7 { conv } else { 0 } },
        8 => Hist::Over { prior: Box::new(mutate(&styles[i], crate::engine::pick_idx(raw.wrapping_mul(2654), MUT_ATTRS), v)), conv: conv & 0xF0 },
        _ => Hist::Over { prior: Box::new(styles[crate::engine::pick_idx(raw.wrapping_mul(40503), styles.len())].clone()), conv },
    }
}

// ---------------------------------------------------------------------------------------
// projection

pub const ATTRS: [&str; 29] = [
    "font.name",
    "font.size",
    "font.bold",
    "font.italic",
    "font.underline",
    "font.strike",
    "font.color",
    "fill.pattern",
    "fill.fg",
    "fill.bg",
    "border.left.style",
    "border.left.color",
    "border.right.style",
    "border.right.color",
    "border.top.style",
    "border.top.color",
    "border.bottom.style",
    "border.bottom.color",
    "border.diagonal.style",
    "border.diagonal.color",
    "border.diagonalUp",
    "border.diagonalDown",
    "align.horizontal",
    "align.vertical",
    "align.wrap",
    "align.rotation",
    "numfmt.code",
    "prot.locked",
    "prot.hidden",
];

/// Effective formatting: one string per entry of ATTRS, same order.
#[derive(Debug, Clone, PartialEq, Eq, Hash, PartialOrd, Ord)]
pub struct StyleProj(pub Vec<String>);

impl StyleProj {
    /// (attribute name, left, right) for every attribute that differs
    pub fn diff(&self, other: &StyleProj) -> Vec<(&'static str, String, String)> {
        let mut d = Vec::new();
        for (i, a) in ATTRS.iter().enumerate() {
            if self.0[i] != other.0[i] {
                d.push((*a, self.0[i].clone(), other.0[i].clone()));
            }
        }
        d
    }
    pub fn distance(&self, other: &StyleProj) -> usize {
        (0..ATTRS.len()).filter(|&i| self.0[i] != other.0[i]).count()
    }
    /// the slice of attributes belonging to one component ("font", "fill", "border", ...)
    pub fn component(&self, comp: &str) -> Vec<&str> {
        ATTRS
            .iter()
            .enumerate()
            .filter(|(_, a)| a.split('.').next() == Some(comp))
            .map(|(i, _)| self.0[i].as_str())
            .collect()
    }
}

pub fn component_of(attr: &str) -> &str {
    attr.split('.').next().unwrap_or(attr)
}

fn f64s(v: f64) -> String {
    // exact: shortest round-trip text plus the bits
    format!("{:?}#{:016x}", v, v.to_bits())
}

/// ARGB of a slot of the default indexed palette, "" outside it.  Read from the library's
/// own table through the public API (the palette is data, not behaviour under test).
pub fn palette(i: u32) -> String {
    let mut c = Color::default();
    c.set_indexed(i);
    c.get_argb().to_string()
}

/// N3.  Which of indexed/theme/rgb a `Color` carries is not exposed by a getter
/// (`get_theme_index()` is 0 for "absent" too), so presence is probed through the public
/// setters: `set_theme_index(v)` clears indexed+rgb and sets theme=v, hence it leaves the
/// colour unchanged (PartialEq) iff the colour is exactly "theme v" (same for indexed).
pub fn color_proj(c: &Color) -> String {
    let tint = *c.get_tint();
    let kind = {
        let mut t = c.clone();
        t.set_theme_index(*c.get_theme_index());
        let mut x = c.clone();
        x.set_indexed(*c.get_indexed());
        if t == *c {
            format!("theme:{}", c.get_theme_index())
        } else if x == *c {
            let p = c.get_argb();
            if p.is_empty() {
                format!("idx:{}", c.get_indexed())
            } else {
                format!("rgb:{}", p)
            }
        } else if !c.get_argb().is_empty() {
            format!("rgb:{}", c.get_argb())
        } else {
            // nothing but (possibly) a tint
            let mut n = Color::default();
            n.set_tint(tint);
            if *c == Color::default() || *c == n {
                "none".to_string()
            } else {
                format!("other:{:?}", c)
            }
        }
    };
    if tint == 0.0 {
        kind
    } else {
        format!("{} tint:{}", kind, f64s(tint))
    }
}

fn expected_color(c: &Option<ColorSpec>) -> String {
    match c {
        None => "none".to_string(),
        Some(c) => {
            let kind = match &c.kind {
                ColorKind::Argb(s) => format!("rgb:{}", s),
                ColorKind::Theme(t) => format!("theme:{}", t),
                ColorKind::Indexed(i) => {
                    let p = palette(*i);
                    if p.is_empty() {
                        format!("idx:{}", i)
                    } else {
                        format!("rgb:{}", p)
                    }
                }
            };
            match &c.tint {
                Some(t) if t.0 != 0.0 => format!("{} tint:{}", kind, f64s(t.0)),
                _ => kind,
            }
        }
    }
}

fn underline_str(u: &UnderlineValues) -> &'static str {
    match u {
        UnderlineValues::Double => "double",
        UnderlineValues::DoubleAccounting => "doubleAccounting",
        UnderlineValues::None => "none",
        UnderlineValues::Single => "single",
        UnderlineValues::SingleAccounting => "singleAccounting",
    }
}

fn font_proj(f: &Font) -> Vec<String> {
    vec![
        f.get_name().to_string(),
        f64s(*f.get_size()),
        f.get_bold().to_string(),
        f.get_italic().to_string(),
        // Font::get_underline() reports "single" for a font without <u>; Underline::get_val()
        // is the getter that knows about absence
        underline_str(f.get_font_underline().get_val()).to_string(),
        f.get_strikethrough().to_string(),
        color_proj(f.get_color()),
    ]
}

fn grad_str(degree: f64, stops: impl Iterator<Item = (f64, String)>) -> String {
    let st: Vec<String> = stops.map(|(p, c)| format!("{}={}", f64s(p), c)).collect();
    format!("gradient deg={} [{}]", f64s(degree), st.join("; "))
}

fn fill_proj(f: &Fill) -> Vec<String> {
    match (f.get_pattern_fill(), f.get_gradient_fill()) {
        (Some(p), None) => vec![
            p.get_pattern_type().get_value_string().to_string(),
            p.get_foreground_color().map_or("none".to_string(), color_proj),
            p.get_background_color().map_or("none".to_string(), color_proj),
        ],
        (None, None) => vec!["none".to_string(), "none".to_string(), "none".to_string()],
        // a gradient fill is folded into the single attribute fill.pattern
        (None, Some(g)) => vec![
            grad_str(*g.get_degree(), g.get_gradient_stop().iter().map(|s| (*s.get_position(), color_proj(s.get_color())))),
            "none".to_string(),
            "none".to_string(),
        ],
        _ => vec!["pattern+gradient".to_string(), "?".to_string(), "?".to_string()],
    }
}

/// (the type `Borders` is not exported, so this takes the style that owns it)
fn borders_proj(st: &Style) -> Option<Vec<String>> {
    let b = st.get_borders()?;
    let mut v = Vec::new();
    for e in [b.get_left(), b.get_right(), b.get_top(), b.get_bottom(), b.get_diagonal()] {
        v.push(e.get_border_style().to_string());
        v.push(color_proj(e.get_color()));
    }
    v.push(b.get_diagonal_up().to_string());
    v.push(b.get_diagonal_down().to_string());
    Some(v)
}

fn align_proj(a: &Alignment) -> Vec<String> {
    vec![
        a.get_horizontal().get_value_string().to_string(),
        a.get_vertical().get_value_string().to_string(),
        a.get_wrap_text().to_string(),
        a.get_text_rotation().to_string(),
    ]
}

/// N1: the projection of the components of `Style::get_default_value()` (font, fill, border)
/// and of the format defaults (General; general/bottom/false/0; locked, not hidden).
pub fn default_proj() -> StyleProj {
    let d = Style::get_default_value();
    let mut v = Vec::new();
    v.extend(font_proj(d.get_font().expect("default style has a font")));
    v.extend(fill_proj(d.get_fill().expect("default style has a fill")));
    v.extend(borders_proj(&d).expect("default style has borders"));
    v.extend(align_proj(&Alignment::default()));
    v.push(NumberingFormat::default().get_format_code().to_string());
    v.push("true".to_string());
    v.push("false".to_string());
    assert_eq!(v.len(), ATTRS.len());
    StyleProj(v)
}

/// Effective formatting of a `Style`, public getters only (N1..N5).
pub fn effective(st: &Style) -> StyleProj {
    let d = default_proj();
    let mut v: Vec<String> = Vec::with_capacity(ATTRS.len());
    match st.get_font() {
        Some(f) => v.extend(font_proj(f)),
        None => v.extend_from_slice(&d.0[0..7]),
    }
    match st.get_fill() {
        Some(f) => v.extend(fill_proj(f)),
        None => v.extend_from_slice(&d.0[7..10]),
    }
    match borders_proj(st) {
        Some(b) => v.extend(b),
        None => v.extend_from_slice(&d.0[10..22]),
    }
    match st.get_alignment() {
        Some(a) => v.extend(align_proj(a)),
        None => v.extend_from_slice(&d.0[22..26]),
    }
    match st.get_numbering_format() {
        Some(n) => v.push(n.get_format_code().to_string()),
        None => v.push(d.0[26].clone()),
    }
    match st.get_protection() {
        Some(p) => {
            v.push(p.get_locked().to_string());
            // get_hidden takes &mut self
            let mut q = p.clone();
            v.push(q.get_hidden().to_string());
        }
        None => v.extend_from_slice(&d.0[27..29]),
    }
    assert_eq!(v.len(), ATTRS.len());
    StyleProj(v)
}

/// The library's whole built-in id -> code table, read through the public API
/// (`set_number_format_id` panics for an id it does not know; ids 0..=200 are probed once).
pub fn builtin_table() -> &'static Vec<(u32, String)> {
    static T: std::sync::OnceLock<Vec<(u32, String)>> = std::sync::OnceLock::new();
    T.get_or_init(|| {
        let mut v = Vec::new();
        for id in 0u32..=200 {
            let r = std::panic::catch_unwind(|| {
                let mut nf = NumberingFormat::default();
                nf.set_number_format_id(id);
                nf.get_format_code().to_string()
            });
            if let Ok(code) = r {
                v.push((id, code));
            }
        }
        // fallback so that strategies never see an empty table
        if v.is_empty() {
            v.push((0, "General".to_string()));
        }
        v
    })
}

/// ASCII-case variant of a code: 0 exact, 1 upper, 2 lower, 3 mixed (letters alternate,
/// starting lower), 4 mixed starting upper.  Only ASCII letters change.
pub fn case_variant(code: &str, kind: u8) -> String {
    match kind % 5 {
        0 => code.to_string(),
        1 => code.to_ascii_uppercase(),
        2 => code.to_ascii_lowercase(),
        k => {
            let mut up = k == 4;
            code.chars()
                .map(|c| {
                    if c.is_ascii_alphabetic() {
                        up = !up;
                        if up {
                            c.to_ascii_uppercase()
                        } else {
                            c.to_ascii_lowercase()
                        }
                    } else {
                        c
                    }
                })
                .collect()
        }
    }
}

/// Every built-in code in its exact spelling and in the case variants that differ from it,
/// as CUSTOM codes (`set_format_code`): a custom code that is only a case variant of a
/// built-in one is a different code and must come back as written.
pub fn builtin_case_variants() -> &'static Vec<String> {
    static T: std::sync::OnceLock<Vec<String>> = std::sync::OnceLock::new();
    T.get_or_init(|| {
        let mut v: Vec<String> = Vec::new();
        for (_, code) in builtin_table() {
            for k in 0..5u8 {
                let c = case_variant(code, k);
                if !v.contains(&c) {
                    v.push(c);
                }
            }
        }
        v
    })
}

/// is `code` a case variant (not the exact spelling) of some built-in code?
pub fn is_builtin_case_variant(code: &str) -> bool {
    builtin_table().iter().any(|(_, b)| b != code && b.eq_ignore_ascii_case(code))
}

/// code of a built-in id, from the library's table (data, read through the public API)
pub fn builtin_code(id: u32) -> String {
    let mut nf = NumberingFormat::default();
    nf.set_number_format_id(id);
    nf.get_format_code().to_string()
}

/// The projection the SPEC means, written by hand from the statement (independent of
/// `apply`/`effective` except for the two data tables `palette` and `builtin_code`).
pub fn expected(s: &StyleSpec) -> StyleProj {
    let d = default_proj();
    let mut v: Vec<String> = Vec::with_capacity(ATTRS.len());
    let b = |o: Option<bool>| o.unwrap_or(false).to_string();
    match &s.font {
        Some(f) => {
            v.push(f.name.clone());
            v.push(f64s(f.size.0));
            v.push(b(f.bold));
            v.push(b(f.italic));
            let u = UNDERLINES[f.underline as usize % UNDERLINES.len()];
            v.push(if u.is_empty() { "none".to_string() } else { u.to_string() });
            v.push(b(f.strike));
            v.push(expected_color(&f.color));
        }
        None => v.extend_from_slice(&d.0[0..7]),
    }
    match &s.fill {
        Some(FillSpec { gradient: Some(g), .. }) => {
            v.push(grad_str(g.degree.0, g.stops.iter().map(|(p, c)| (p.0, expected_color(c)))));
            v.push("none".to_string());
            v.push("none".to_string());
        }
        Some(f) => {
            v.push(f.pattern.map_or("none", |p| PATTERNS[p as usize % PATTERNS.len()]).to_string());
            v.push(expected_color(&f.fg));
            v.push(expected_color(&f.bg));
        }
        None => v.extend_from_slice(&d.0[7..10]),
    }
    match &s.borders {
        Some(bs) => {
            for e in [&bs.left, &bs.right, &bs.top, &bs.bottom, &bs.diagonal] {
                v.push(e.style.map_or("none", |p| BORDER_STYLES[p as usize % BORDER_STYLES.len()]).to_string());
                v.push(expected_color(&e.color));
            }
            v.push(b(bs.diag_up));
            v.push(b(bs.diag_down));
        }
        None => v.extend_from_slice(&d.0[10..22]),
    }
    match &s.align {
        Some(a) => {
            v.push(a.horizontal.map_or("general", |p| HORIZONTALS[p as usize % HORIZONTALS.len()]).to_string());
            v.push(a.vertical.map_or("bottom", |p| VERTICALS[p as usize % VERTICALS.len()]).to_string());
            v.push(b(a.wrap));
            v.push(a.rotation.unwrap_or(0).to_string());
        }
        None => v.extend_from_slice(&d.0[22..26]),
    }
    match &s.numfmt {
        Some(NumFmtSpec::Builtin(id)) => v.push(builtin_code(*id)),
        Some(NumFmtSpec::Code(c)) => v.push(c.clone()),
        None => v.push(d.0[26].clone()),
    }
    match &s.prot {
        Some(p) => {
            v.push(p.locked.to_string());
            v.push(p.hidden.to_string());
        }
        None => v.extend_from_slice(&d.0[27..29]),
    }
    StyleProj(v)
}

// ---------------------------------------------------------------------------------------
// single-attribute neighbours

/// Attributes of the SPEC that a mutation can change (30 = the 29 projected ones + font
/// family, which is a carrier for the size x family key collision).
pub const MUT_ATTRS: usize = 30;

fn default_font_spec() -> FontSpec {
    FontSpec {
        name: "Calibri".to_string(),
        size: Num(11.0),
        family: Some(2),
        bold: None,
        italic: None,
        underline: 0,
        strike: None,
        color: Some(ColorSpec { kind: ColorKind::Theme(1), tint: None }),
        vert_align: None,
        charset: None,
        scheme: None,
    }
}

fn color_variant(cur: &Option<ColorSpec>, variant: u8) -> Option<ColorSpec> {
    let table: Vec<Option<ColorSpec>> = vec![
        Some(ColorSpec { kind: ColorKind::Argb("FFFF0000".into()), tint: None }),
        Some(ColorSpec { kind: ColorKind::Theme(1), tint: None }),
        Some(ColorSpec { kind: ColorKind::Indexed(1), tint: None }),
        Some(ColorSpec { kind: ColorKind::Theme(12), tint: None }),
        Some(ColorSpec { kind: ColorKind::Indexed(12), tint: None }),
        Some(ColorSpec { kind: ColorKind::Theme(1), tint: Some(Num(0.5)) }),
        Some(ColorSpec { kind: ColorKind::Theme(1), tint: Some(Num(-0.5)) }),
        Some(ColorSpec { kind: ColorKind::Theme(0), tint: None }),
        Some(ColorSpec { kind: ColorKind::Argb("FF123456".into()), tint: None }),
        Some(ColorSpec { kind: ColorKind::Argb("FF123457".into()), tint: None }),
        Some(ColorSpec { kind: ColorKind::Indexed(64), tint: None }),
        Some(ColorSpec { kind: ColorKind::Indexed(11), tint: None }),
        Some(ColorSpec { kind: ColorKind::Theme(2), tint: None }),
        None,
    ];
    // same tint / same kind neighbours of the current colour first
    if let Some(c) = cur {
        match variant % 5 {
            0 => {
                // only the tint changes
                let t = match &c.tint {
                    None => Some(Num(0.39997558519241921)),
                    Some(t) if t.0 == 0.5 => Some(Num(0.1)),
                    Some(_) => Some(Num(0.5)),
                };
                return Some(ColorSpec { kind: c.kind.clone(), tint: t });
            }
            1 => {
                // same number, other kind (indexed n <-> theme n)
                let k = match &c.kind {
                    ColorKind::Theme(n) => Some(ColorKind::Indexed(*n)),
                    ColorKind::Indexed(n) => Some(ColorKind::Theme(*n)),
                    ColorKind::Argb(_) => None,
                };
                if let Some(k) = k {
                    return Some(ColorSpec { kind: k, tint: c.tint });
                }
            }
            _ => {}
        }
    }
    let n = table.len();
    for k in 0..n {
        let cand = &table[(variant as usize + k) % n];
        if expected_color(cand) != expected_color(cur) {
            return cand.clone();
        }
    }
    None
}

fn pick_other<T: PartialEq + Clone>(table: &[T], cur: &T, variant: u8) -> T {
    let n = table.len();
    for k in 0..n {
        let cand = &table[(variant as usize + k) % n];
        if cand != cur {
            return cand.clone();
        }
    }
    cur.clone()
}

fn flip(cur: Option<bool>, variant: u8) -> Option<bool> {
    // effective value always flips; presence varies with the variant
    let eff = cur.unwrap_or(false);
    if eff {
        if variant % 2 == 0 {
            None
        } else {
            Some(false)
        }
    } else {
        Some(true)
    }
}

fn idx_other(n: usize, cur: Option<u8>, variant: u8) -> Option<u8> {
    let cur_i = cur.unwrap_or(0) as usize % n;
    let mut i = variant as usize % n;
    if i == cur_i {
        i = (i + 1) % n;
    }
    Some(i as u8)
}

fn edge_mut<'a>(b: &'a mut BordersSpec, e: usize) -> &'a mut EdgeSpec {
    match e {
        0 => &mut b.left,
        1 => &mut b.right,
        2 => &mut b.top,
        3 => &mut b.bottom,
        _ => &mut b.diagonal,
    }
}

/// A copy of `base` in which exactly attribute `k` (0..MUT_ATTRS) has another effective
/// value.  An absent component is first materialised with its default values (N1), so the
/// neighbour of a default-font style is e.g. "Calibri 11 bold".
pub fn mutate(base: &StyleSpec, k: usize, variant: u8) -> StyleSpec {
    let mut s = base.clone();
    match k {
        0..=7 => {
            let f = s.font.get_or_insert_with(default_font_spec);
            match k {
                0 => f.name = pick_other(&FONT_NAMES.iter().map(|x| x.to_string()).collect::<Vec<_>>(), &f.name, variant),
                1 => f.size = Num(pick_other(&FONT_SIZES, &f.size.0, variant)),
                2 => f.bold = flip(f.bold, variant),
                3 => f.italic = flip(f.italic, variant),
                4 => {
                    // effective underline must change: "" and "none" are the same
                    let cur = UNDERLINES[f.underline as usize % 6];
                    let cur_eff = if cur.is_empty() { "none" } else { cur };
                    let mut i = variant as usize % 6;
                    for _ in 0..6 {
                        let c = UNDERLINES[i];
                        let e = if c.is_empty() { "none" } else { c };
                        if e != cur_eff {
                            break;
                        }
                        i = (i + 1) % 6;
                    }
                    f.underline = i as u8;
                }
                5 => f.strike = flip(f.strike, variant),
                6 => f.color = color_variant(&f.color, variant),
                _ => f.family = pick_other(&[Some(2), Some(1), Some(3), None, Some(12), Some(0)], &f.family, variant),
            }
        }
        8..=10 => {
            let f = s.fill.get_or_insert(FillSpec { pattern: Some(0), fg: None, bg: None, gradient: None });
            if let Some(g) = &mut f.gradient {
                // a gradient is one attribute of the projection: change exactly one part of it
                match k {
                    8 => g.degree = Num(pick_other(&[0.0, 45.0, 90.0, 135.0, 180.0, 270.0, 22.5], &g.degree.0, variant)),
                    9 => match g.stops.first_mut() {
                        Some(st) => st.1 = color_variant(&st.1, variant),
                        None => g.stops.push((Num(0.0), color_variant(&None, variant))),
                    },
                    _ => match g.stops.last_mut() {
                        Some(st) => st.0 = Num(pick_other(&[1.0, 0.5, 0.75, 0.0], &st.0 .0, variant)),
                        None => g.stops.push((Num(1.0), None)),
                    },
                }
            } else {
                match k {
                    8 => f.pattern = idx_other(PATTERNS.len(), f.pattern, variant),
                    9 => f.fg = color_variant(&f.fg, variant),
                    _ => f.bg = color_variant(&f.bg, variant),
                }
            }
        }
        11..=22 => {
            let b = s.borders.get_or_insert_with(BordersSpec::default);
            match k {
                21 => b.diag_up = flip(b.diag_up, variant),
                22 => b.diag_down = flip(b.diag_down, variant),
                _ => {
                    let e = edge_mut(b, (k - 11) / 2);
                    if (k - 11) % 2 == 0 {
                        e.style = idx_other(BORDER_STYLES.len(), e.style, variant);
                    } else {
                        e.color = color_variant(&e.color, variant);
                    }
                }
            }
        }
        23..=26 => {
            let a = s.align.get_or_insert_with(AlignSpec::default);
            match k {
                23 => a.horizontal = idx_other(HORIZONTALS.len(), a.horizontal, variant),
                24 => a.vertical = idx_other(VERTICALS.len(), a.vertical, variant),
                25 => a.wrap = flip(a.wrap, variant),
                _ => a.rotation = Some(pick_other(&ROTATIONS, &a.rotation.unwrap_or(0), variant)),
            }
        }
        27 => {
            let cur = expected(&s).0[26].clone();
            // a case variant of the current code is the closest possible neighbour
            if variant % 3 == 0 {
                for k in 1..5u8 {
                    let c = case_variant(&cur, k.wrapping_add(variant / 3) % 4 + 1);
                    if c != cur {
                        s.numfmt = Some(NumFmtSpec::Code(c));
                        return s;
                    }
                }
            }
            let tab = builtin_table();
            let vars = builtin_case_variants();
            let n = CUSTOM_CODES.len() + tab.len() + vars.len();
            for j in 0..n {
                let i = (variant as usize * 7 + j) % n;
                let cand = if i < CUSTOM_CODES.len() {
                    NumFmtSpec::Code(CUSTOM_CODES[i].to_string())
                } else if i < CUSTOM_CODES.len() + tab.len() {
                    NumFmtSpec::Builtin(tab[i - CUSTOM_CODES.len()].0)
                } else {
                    NumFmtSpec::Code(vars[i - CUSTOM_CODES.len() - tab.len()].clone())
                };
                let code = match &cand {
                    NumFmtSpec::Code(c) => c.clone(),
                    NumFmtSpec::Builtin(id) => builtin_code(*id),
                };
                if code != cur {
                    s.numfmt = Some(cand);
                    break;
                }
            }
        }
        _ => {
            let p = s.prot.get_or_insert(ProtSpec { locked: true, hidden: false });
            if k == 28 {
                p.locked = !p.locked;
            } else {
                p.hidden = !p.hidden;
            }
        }
    }
    s
}

/// Adversarial neighbours for keys built by concatenating fields without separators.
/// Every returned group consists of styles that a sound interning must keep apart.
pub fn adversarial(kind: u8, base: &StyleSpec, a: u8, b: u8) -> Vec<StyleSpec> {
    let mut x = base.clone();
    let mut y = base.clone();
    match kind % 8 {
        0 => {
            // font name ending in digits x size: ("Arial1", 1) vs ("Arial", 11)
            let stem = ["Arial", "Univers ", "Font", "ＭＳ", "A&B"][a as usize % 5];
            let d = 1 + (b as u32 % 3); // 1..3
            let s = 1 + (a as u32 / 5 % 40); // 1..40
            let fx = x.font.get_or_insert_with(default_font_spec);
            fx.name = format!("{}{}", stem, d);
            fx.size = Num(s as f64);
            let fy = y.font.get_or_insert_with(default_font_spec);
            fy.name = stem.to_string();
            fy.size = Num(format!("{}{}", d, s).parse::<f64>().unwrap());
            fy.family = fx.family;
        }
        1 => {
            // size x family: (1, 12) vs (11, 2)
            let s = 1 + (a as u32 % 9); // 1..9
            let f = b as i32 % 5; // 0..4
            let fx = x.font.get_or_insert_with(default_font_spec);
            fx.size = Num(s as f64);
            fx.family = Some(10 + f);
            let fy = y.font.get_or_insert_with(default_font_spec);
            fy.size = Num((s * 10 + 1) as f64);
            fy.family = Some(f);
            fy.name = fx.name.clone();
        }
        2 => {
            // colour indexed x theme with regrouped digits: indexed 1 / theme 12 / indexed 11 / theme 2 / indexed 12 / theme 1
            let mut out = Vec::new();
            for k in [
                ColorKind::Indexed(1),
                ColorKind::Theme(12),
                ColorKind::Indexed(11),
                ColorKind::Theme(2),
                ColorKind::Indexed(12),
                ColorKind::Theme(1),
                ColorKind::Indexed(2),
                ColorKind::Theme(11),
            ] {
                let mut z = base.clone();
                let c = Some(ColorSpec { kind: k, tint: None });
                match a % 3 {
                    0 => z.font.get_or_insert_with(default_font_spec).color = c,
                    1 => {
                        let f = z.fill.get_or_insert(FillSpec { pattern: Some(1), fg: None, bg: None, gradient: None });
                        f.fg = c;
                    }
                    _ => {
                        let bs = z.borders.get_or_insert_with(BordersSpec::default);
                        let e = edge_mut(bs, b as usize % 5);
                        if e.style.unwrap_or(0) == 0 {
                            e.style = Some(1);
                        }
                        e.color = c;
                    }
                }
                out.push(z);
            }
            return out;
        }
        3 => {
            // border style x colour, and the same edge on another side
            let bs = base.borders.clone().unwrap_or_default();
            let st = 1 + (a as usize % (BORDER_STYLES.len() - 1));
            let col = Some(ColorSpec { kind: ColorKind::Argb(ARGBS[b as usize % ARGBS.len()].to_string()), tint: None });
            let mut out = Vec::new();
            for e in 0..5 {
                let mut z = base.clone();
                let mut nb = bs.clone();
                *edge_mut(&mut nb, e) = EdgeSpec { style: Some(st as u8), color: col.clone() };
                z.borders = Some(nb);
                out.push(z);
            }
            // style with / without colour, neighbouring style names (dashDot / dashDotDot)
            for (s2, c2) in [(8u8, col.clone()), (9u8, col.clone()), (8u8, None), (11u8, col.clone()), (12u8, col.clone())] {
                let mut z = base.clone();
                let mut nb = bs.clone();
                nb.left = EdgeSpec { style: Some(s2), color: c2 };
                z.borders = Some(nb);
                out.push(z);
            }
            return out;
        }
        4 => {
            // fill: fg <-> bg swapped, with and without the other colour
            let c1 = Some(ColorSpec { kind: ColorKind::Argb(ARGBS[a as usize % ARGBS.len()].to_string()), tint: None });
            let c2 = Some(ColorSpec { kind: ColorKind::Theme(b as u32 % 10), tint: None });
            let p = Some(1 + (b % 18));
            let mut out = Vec::new();
            for (fg, bg) in [(c1.clone(), None), (None, c1.clone()), (c1.clone(), c2.clone()), (c2.clone(), c1.clone()), (c2.clone(), None), (None, c2.clone())] {
                let mut z = base.clone();
                z.fill = Some(FillSpec { pattern: p, fg, bg, gradient: None });
                out.push(z);
            }
            return out;
        }
        5 => {
            // boolean flags shifted by one position: bold / italic / strike
            let mut out = Vec::new();
            for (bo, it, st) in [(Some(true), None, None), (None, Some(true), None), (None, None, Some(true)), (Some(true), Some(false), None), (Some(false), Some(true), None)] {
                let mut z = base.clone();
                let f = z.font.get_or_insert_with(default_font_spec);
                f.bold = bo;
                f.italic = it;
                f.strike = st;
                out.push(z);
            }
            return out;
        }
        6 => {
            // number formats that differ by case, a blank, an XML special or its escaped look-alike
            let mut out = Vec::new();
            if a % 2 == 0 {
                for c in ["0.0", "0.0 ", " 0.0", "0.0E+0", "0.0e+0", "0\"&\"", "0\"&amp;\"", "0\"<\"", "0\"&lt;\"", "\"<\"0.0;[Red]\"&\"0", "yyyy-mm-dd", "YYYY-MM-DD"] {
                    let mut z = base.clone();
                    z.numfmt = Some(NumFmtSpec::Code(c.to_string()));
                    out.push(z);
                }
            } else {
                // one built-in format by id, by its exact code, and its upper / lower / mixed
                // case variants as custom codes, all in one workbook
                let tab = builtin_table();
                let (id, code) = &tab[crate::engine::pick_idx((b as u16) << 8 | (a as u16), tab.len())];
                let mut z = base.clone();
                z.numfmt = Some(NumFmtSpec::Builtin(*id));
                out.push(z);
                for k in 0..5u8 {
                    let mut z = base.clone();
                    z.numfmt = Some(NumFmtSpec::Code(case_variant(code, k)));
                    if !out.contains(&z) {
                        out.push(z);
                    }
                }
            }
            return out;
        }
        _ => {
            // tint precision and sign; protection and alignment corners
            let mut out = Vec::new();
            for t in [0.5, -0.5, 0.4, 0.39997558519241921, 0.3999755851924192, 0.39997558519241927, -0.249977111117893, 1e-7] {
                let mut z = base.clone();
                z.font.get_or_insert_with(default_font_spec).color = Some(ColorSpec { kind: ColorKind::Theme(a as u32 % 10), tint: Some(Num(t)) });
                out.push(z);
            }
            for (l, h) in [(true, true), (false, false), (false, true)] {
                let mut z = base.clone();
                z.prot = Some(ProtSpec { locked: l, hidden: h });
                out.push(z);
            }
            for r in [255u32, 180, 90, 91] {
                let mut z = base.clone();
                z.align.get_or_insert_with(AlignSpec::default).rotation = Some(r);
                out.push(z);
            }
            return out;
        }
    }
    vec![x, y]
}

// ---------------------------------------------------------------------------------------
// strategies

pub fn color_spec() -> BoxedStrategy<ColorSpec> {
    let kind = prop_oneof![
        4 => prop::sample::select(ARGBS.to_vec()).prop_map(|s| ColorKind::Argb(s.to_string())),
        1 => "[0-9A-F]{8}".prop_map(ColorKind::Argb),
        4 => (0u32..12).prop_map(ColorKind::Theme),
        3 => prop_oneof![0u32..66, Just(64u32), Just(65u32), Just(1u32), Just(11u32)].prop_map(ColorKind::Indexed),
    ];
    (kind, prop::option::weighted(0.3, prop_oneof![prop::sample::select(TINTS.to_vec()), (-1000i32..1000).prop_map(|i| i as f64 / 1000.0)]))
        .prop_map(|(kind, tint)| ColorSpec { kind, tint: tint.map(Num) })
        .boxed()
}

fn opt_bool() -> BoxedStrategy<Option<bool>> {
    prop_oneof![5 => Just(None), 4 => Just(Some(true)), 1 => Just(Some(false))].boxed()
}

pub fn font_spec() -> BoxedStrategy<FontSpec> {
    (
        prop::sample::select(FONT_NAMES.to_vec()),
        prop_oneof![4 => prop::sample::select(FONT_SIZES.to_vec()), 1 => (1u32..=409).prop_map(|i| i as f64), 1 => (4u32..=1600).prop_map(|i| i as f64 / 4.0)],
        prop_oneof![3 => Just(Some(2)), 1 => Just(None), 1 => (0i32..=14).prop_map(Some)],
        opt_bool(),
        opt_bool(),
        prop_oneof![4 => Just(0u8), 3 => 1u8..6],
        opt_bool(),
        prop::option::weighted(0.8, color_spec()),
        (
            prop::option::weighted(0.15, 1u8..=3),
            prop::option::weighted(0.15, prop::sample::select(vec![0i32, 1, 2, 128, 129, 134, 204, 238])),
            prop::option::weighted(0.15, 0u8..3),
        ),
    )
        .prop_map(|(name, size, family, bold, italic, underline, strike, color, (vert_align, charset, scheme))| FontSpec {
            name: name.to_string(),
            size: Num(size),
            family,
            bold,
            italic,
            underline,
            strike,
            color,
            vert_align,
            charset,
            scheme,
        })
        .boxed()
}

/// `dirty_fill`: also generate pattern none/absent together with a foreground colour
pub fn fill_spec(dirty_fill: bool) -> BoxedStrategy<FillSpec> {
    let pattern_fill = (
        prop_oneof![1 => Just(None), 3 => Just(Some(1u8)), 1 => Just(Some(0u8)), 4 => (0u8..PATTERNS.len() as u8).prop_map(Some)],
        prop::option::weighted(0.7, color_spec()),
        prop::option::weighted(0.4, color_spec()),
    )
        .prop_map(move |(pattern, fg, bg)| {
            let mut f = FillSpec { pattern, fg, bg, gradient: None };
            if !dirty_fill && f.fg.is_some() && f.pattern.unwrap_or(0) == 0 {
                f.pattern = Some(1);
            }
            f
        })
        .boxed();
    let grad = (
        prop::sample::select(vec![0.0, 45.0, 90.0, 135.0, 180.0, 270.0, 22.5]),
        prop::collection::vec(
            (prop::sample::select(vec![0.0, 0.25, 0.5, 0.75, 1.0, 0.3333333333333333]), prop::option::weighted(0.9, color_spec())),
            0..=3,
        ),
    )
        .prop_map(|(degree, stops)| FillSpec {
            pattern: None,
            fg: None,
            bg: None,
            gradient: Some(GradSpec { degree: Num(degree), stops: stops.into_iter().map(|(p, c)| (Num(p), c)).collect() }),
        });
    prop_oneof![8 => pattern_fill, 1 => grad].boxed()
}

pub fn edge_spec() -> BoxedStrategy<EdgeSpec> {
    (
        prop_oneof![2 => Just(None), 1 => Just(Some(0u8)), 5 => (0u8..BORDER_STYLES.len() as u8).prop_map(Some)],
        prop::option::weighted(0.5, color_spec()),
    )
        .prop_map(|(style, color)| EdgeSpec { style, color })
        .boxed()
}

pub fn borders_spec() -> BoxedStrategy<BordersSpec> {
    (edge_spec(), edge_spec(), edge_spec(), edge_spec(), edge_spec(), opt_bool(), opt_bool())
        .prop_map(|(left, right, top, bottom, diagonal, diag_up, diag_down)| BordersSpec {
            left,
            right,
            top,
            bottom,
            diagonal,
            diag_up,
            diag_down,
        })
        .boxed()
}

pub fn align_spec() -> BoxedStrategy<AlignSpec> {
    (
        prop::option::weighted(0.7, 0u8..HORIZONTALS.len() as u8),
        prop::option::weighted(0.6, 0u8..VERTICALS.len() as u8),
        opt_bool(),
        prop::option::weighted(0.5, prop_oneof![3 => prop::sample::select(ROTATIONS.to_vec()), 1 => 0u32..=180]),
    )
        .prop_map(|(horizontal, vertical, wrap, rotation)| AlignSpec {
            horizontal,
            vertical,
            wrap,
            rotation,
        })
        .boxed()
}

pub fn numfmt_spec() -> BoxedStrategy<NumFmtSpec> {
    prop_oneof![
        2 => prop::sample::select(BUILTIN_IDS.to_vec()).prop_map(NumFmtSpec::Builtin),
        1 => prop::sample::select(builtin_table().clone()).prop_map(|(id, _)| NumFmtSpec::Builtin(id)),
        2 => prop::sample::select(builtin_case_variants().clone()).prop_map(NumFmtSpec::Code),
        4 => prop::sample::select(CUSTOM_CODES.to_vec()).prop_map(|s| NumFmtSpec::Code(s.to_string())),
        1 => (1usize..6, prop::sample::select(vec!["", "%", " \"<&>\"", ";[Red]-0", "E+00", " \"x\""]))
            .prop_map(|(n, suffix)| NumFmtSpec::Code(format!("0.{}{}", "0".repeat(n + 4), suffix))),
    ]
    .boxed()
}

pub fn prot_spec() -> BoxedStrategy<ProtSpec> {
    (any::<bool>(), any::<bool>()).prop_map(|(locked, hidden)| ProtSpec { locked, hidden }).boxed()
}

/// One style from the full product; each component is present with probability ~0.6.
pub fn style_spec(dirty_fill: bool) -> BoxedStrategy<StyleSpec> {
    (
        prop::option::weighted(0.65, font_spec()),
        prop::option::weighted(0.6, fill_spec(dirty_fill)),
        prop::option::weighted(0.5, borders_spec()),
        prop::option::weighted(0.5, align_spec()),
        prop::option::weighted(0.5, numfmt_spec()),
        prop::option::weighted(0.4, prot_spec()),
    )
        .prop_map(|(font, fill, borders, align, numfmt, prot)| StyleSpec {
            font,
            fill,
            borders,
            align,
            numfmt,
            prot,
        })
        .boxed()
}

/// One family: a base style, single-attribute neighbours (each from the base, or chained),
/// and optionally a group of adversarial neighbours built on the same base.
#[derive(Debug, Clone)]
pub struct Family {
    pub base: StyleSpec,
    pub muts: Vec<(u16, u8)>,
    pub chained: bool,
    pub adv: Option<(u8, u8, u8)>,
}

impl Family {
    pub fn styles(&self) -> Vec<StyleSpec> {
        let mut out = vec![self.base.clone()];
        let mut cur = self.base.clone();
        for (k, v) in &self.muts {
            let k = crate::engine::pick_idx(*k, MUT_ATTRS);
            let from = if self.chained { &cur } else { &self.base };
            let n = mutate(from, k, *v);
            cur = n.clone();
            out.push(n);
        }
        if let Some((kind, a, b)) = self.adv {
            out.extend(adversarial(kind, &self.base, a, b));
        }
        out
    }
}

pub fn family(max_muts: usize, dirty_fill: bool) -> BoxedStrategy<Family> {
    (
        style_spec(dirty_fill),
        prop::collection::vec((any::<u16>(), any::<u8>()), 1..=max_muts),
        prop::bool::weighted(0.3),
        prop::option::weighted(0.5, (0u8..8, any::<u8>(), any::<u8>())),
    )
        .prop_map(|(base, muts, chained, adv)| Family { base, muts, chained, adv })
        .boxed()
}

/// 1..=max distinct styles built as families (distinct as specs; order preserved).
pub fn style_set(max_families: usize, max_muts: usize, max_styles: usize, dirty_fill: bool) -> BoxedStrategy<Vec<StyleSpec>> {
    prop::collection::vec(family(max_muts, dirty_fill), 1..=max_families)
        .prop_map(move |fams| {
            let mut out: Vec<StyleSpec> = Vec::new();
            for f in &fams {
                for s in f.styles() {
                    if out.len() < max_styles && !out.contains(&s) {
                        out.push(s);
                    }
                }
            }
            out
        })
        .boxed()
}
