//! Shared generators (proptest strategies).
pub mod password;
pub mod text;
