//! Shared generators (proptest strategies).
pub mod text;
pub mod wb;
