//! Shared generators (proptest strategies).
pub mod text;
