//! Shared generators (proptest strategies).
pub mod annot;
pub mod text;
pub mod wb;
