//! Shared generators (proptest strategies).
pub mod grid;
pub mod text;
