//! Shared generators (proptest strategies).
pub mod annot;
pub mod faultsave;
pub mod formula;
pub mod grid;
pub mod password;
pub mod style;
pub mod text;
pub mod wb;
pub mod xlsxgen;
