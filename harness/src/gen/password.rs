//! Password alphabets for C14/C15 (DESIGN 4/C14 G): empty, ASCII, BMP, non-BMP, up to 255
//! UTF-16 code units ([MS-OFFCRYPTO] 2.3.4.11: "MUST NOT be longer than 255 characters").
use proptest::prelude::*;
use proptest::strategy::BoxedStrategy;

pub fn pw_char() -> BoxedStrategy<char> {
    prop_oneof![
        10 => prop::char::range(' ', '~'),
        3 => prop::sample::select(vec!['é', 'ß', 'Ω', 'Ж', 'א', '日', '本', '한', '\u{3000}', '\u{a0}', '\u{301}', 'ı', 'İ', '\u{ff21}']),
        2 => prop::sample::select(vec!['😀', '𠀋', '🧪', '\u{10000}', '\u{10FFFF}', '\u{1F468}']),
        1 => prop::char::range('\u{a1}', '\u{d7ff}'),
        1 => prop::char::range('\u{e000}', '\u{fffd}'),
    ]
    .boxed()
}

pub fn utf16_len(s: &str) -> usize {
    s.encode_utf16().count()
}

/// Cuts at a character boundary so that the UTF-16 length is at most `max`.
pub fn cut_units(s: &str, max: usize) -> String {
    let mut out = String::new();
    let mut n = 0;
    for c in s.chars() {
        n += c.len_utf16();
        if n > max {
            break;
        }
        out.push(c);
    }
    out
}

fn chars_to_string(v: Vec<char>) -> String {
    v.into_iter().collect()
}

/// `allow_empty`: include the empty password (the library's API accepts it).
pub fn password(allow_empty: bool) -> BoxedStrategy<String> {
    let fixed = vec![
        "password", "Password", "PASSWORD", " ", "a", "pass word", " lead", "trail ", "VelvetSweatshop", "p&ss<w>\"d'", "pässwörd", "パスワード", "😀",
        "a😀b", "𠀋𠀋", "0", "ÀÉÎÕÜ", "пароль", "sixteen-chars-pw", "fifteen-chars-p",
    ];
    let nonempty = prop_oneof![
        3 => "[a-zA-Z0-9]{1,12}".prop_map(|s| s),
        2 => prop::sample::select(fixed).prop_map(|s| s.to_string()),
        4 => prop::collection::vec(pw_char(), 1..=20).prop_map(chars_to_string),
        2 => prop::collection::vec(pw_char(), 16..=64).prop_map(chars_to_string),
        1 => prop::collection::vec(pw_char(), 128..=255).prop_map(chars_to_string),
        1 => prop::sample::select(vec![255usize, 254, 129, 128, 127, 65, 64, 63, 33, 32, 31]).prop_map(|n| {
            (0..n).map(|i| (b'a' + (i % 26) as u8) as char).collect::<String>()
        }),
        1 => (prop::sample::select(vec!['😀', '𠀋', '日', 'é']), 100usize..=255).prop_map(|(c, n)| std::iter::repeat(c).take(n).collect::<String>()),
    ]
    .prop_map(|s| cut_units(&s, 255))
    .boxed();
    if allow_empty {
        prop_oneof![1 => Just(String::new()), 16 => nonempty].boxed()
    } else {
        nonempty
    }
}

/// Coarse label used in class counters and finding keys.
pub fn pw_class(s: &str) -> &'static str {
    if s.is_empty() {
        "empty-password"
    } else if s.chars().any(|c| (c as u32) > 0xffff) {
        "nonbmp-password"
    } else if !s.is_ascii() {
        "bmp-password"
    } else if s.chars().count() > 15 {
        "long-ascii-password"
    } else {
        "ascii-password"
    }
}

/// A password different from `pw`, built from it (near misses are the interesting wrong
/// passwords: case, one character more/less, lossy transcodings).  Always `!= pw`, at
/// most 255 UTF-16 units unless `pw` already is 255 long and the mode appends.
pub fn wrong_of(pw: &str, mode: u8) -> String {
    let cand = match mode % 7 {
        0 => format!("{}x", cut_units(pw, 254)),
        1 => {
            let mut c: Vec<char> = pw.chars().collect();
            c.pop();
            c.into_iter().collect()
        }
        2 => {
            // flip the case of the first ASCII letter
            let mut done = false;
            pw.chars()
                .map(|c| {
                    if !done && c.is_ascii_alphabetic() {
                        done = true;
                        if c.is_ascii_lowercase() {
                            c.to_ascii_uppercase()
                        } else {
                            c.to_ascii_lowercase()
                        }
                    } else {
                        c
                    }
                })
                .collect()
        }
        3 => String::new(),
        4 => pw.chars().map(|c| if c.is_ascii() { c } else { '?' }).collect(),
        5 => {
            // the UTF-8 bytes read as Latin-1 (a typical transcoding slip)
            pw.bytes().map(|b| b as char).collect::<String>()
        }
        _ => {
            if pw.chars().count() > 15 {
                pw.chars().take(15).collect()
            } else {
                pw.chars().rev().collect()
            }
        }
    };
    let cand = cut_units(&cand, 255);
    if cand != pw {
        cand
    } else if pw.is_empty() {
        " ".to_string()
    } else {
        let base = cut_units(pw, 254);
        let alt = format!("{}x", base);
        if alt != pw {
            alt
        } else {
            format!("{}y", base)
        }
    }
}
