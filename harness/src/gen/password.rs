//! Password alphabets for C14/C15 (DESIGN 4/C14 G): empty, ASCII, BMP, non-BMP, up to 255
//! CHARACTERS (the statement's quantifier: "up to 255 characters").  A character outside the
//! BMP takes two UTF-16 code units, so a legal password can be up to 510 code units / 1020
//! bytes long in the form that is hashed; the strata below put passwords on both sides of
//! 255 code units, of 255 UTF-16 bytes and of 255 UTF-8 bytes.
use proptest::prelude::*;
use proptest::strategy::BoxedStrategy;

pub const MAX_CHARS: usize = 255;

pub fn pw_char() -> BoxedStrategy<char> {
    prop_oneof![
        10 => prop::char::range(' ', '~'),
        3 => prop::sample::select(vec!['é', 'ß', 'Ω', 'Ж', 'א', '日', '本', '한', '\u{3000}', '\u{a0}', '\u{301}', 'ı', 'İ', '\u{ff21}']),
        2 => nonbmp_char(),
        1 => prop::char::range('\u{a1}', '\u{d7ff}'),
        1 => prop::char::range('\u{e000}', '\u{fffd}'),
    ]
    .boxed()
}

pub fn nonbmp_char() -> BoxedStrategy<char> {
    prop_oneof![
        3 => prop::sample::select(vec!['😀', '𠀋', '🧪', '\u{10000}', '\u{10FFFF}', '\u{1F468}', '\u{1F511}', '\u{10400}']),
        1 => prop::char::range('\u{10000}', '\u{10FFFF}'),
    ]
    .boxed()
}

pub fn utf16_len(s: &str) -> usize {
    s.encode_utf16().count()
}

/// Cuts at a character boundary so that the UTF-16 length is at most `max`.
pub fn cut_units(s: &str, max: usize) -> String {
    let mut out = String::new();
    let mut n = 0;
    for c in s.chars() {
        n += c.len_utf16();
        if n > max {
            break;
        }
        out.push(c);
    }
    out
}

/// Cuts at a character boundary so that the UTF-8 length is at most `max` bytes.
pub fn cut_utf8(s: &str, max: usize) -> String {
    let mut out = String::new();
    for c in s.chars() {
        if out.len() + c.len_utf8() > max {
            break;
        }
        out.push(c);
    }
    out
}

pub fn cut_chars(s: &str, max: usize) -> String {
    s.chars().take(max).collect()
}

fn chars_to_string(v: Vec<char>) -> String {
    v.into_iter().collect()
}

/// Long passwords (128..=255 characters) with any share of non-BMP characters: up to 510
/// UTF-16 code units.
fn long_mixed() -> BoxedStrategy<String> {
    let ch = |w_nonbmp: u32| prop_oneof![10 => prop::char::range('a', 'z'), 2 => prop::sample::select(vec!['é', '日', 'Ж']), w_nonbmp => nonbmp_char()].boxed();
    prop_oneof![
        // around 255 code units exactly: n characters, k of them non-BMP, n + k in 253..=258
        3 => (128usize..=255, 253usize..=258, nonbmp_char(), any::<u8>()).prop_map(|(n, units, c, rot)| {
            let k = units.saturating_sub(n).min(n);
            // k non-BMP characters spread by a rotation, the rest ASCII
            let mut v: Vec<char> = (0..n).map(|i| if i < k { c } else { (b'a' + (i % 26) as u8) as char }).collect();
            let r = rot as usize % n;
            v.rotate_left(r);
            chars_to_string(v)
        }),
        // the shapes of the seeded demo: 'a' + 127 emoji + 'b' (256 units), 128 emoji, 255 emoji (510 units)
        2 => prop::sample::select(vec![(1usize, 127usize, 1usize), (0, 128, 0), (0, 255, 0), (1, 127, 0), (0, 200, 55), (127, 64, 0), (100, 100, 55)]).prop_flat_map(|(a, e, b)| {
            nonbmp_char().prop_map(move |c| {
                let mut s = "a".repeat(a);
                s.extend(std::iter::repeat(c).take(e));
                s.push_str(&"b".repeat(b));
                s
            })
        }),
        2 => prop::collection::vec(ch(3), 128..=255).prop_map(chars_to_string),
        2 => prop::collection::vec(ch(30), 128..=255).prop_map(chars_to_string),
        1 => prop::collection::vec(nonbmp_char(), 128..=255).prop_map(chars_to_string),
    ]
    .boxed()
}

/// `allow_empty`: include the empty password (the library's API accepts it).
pub fn password(allow_empty: bool) -> BoxedStrategy<String> {
    let fixed = vec![
        "password", "Password", "PASSWORD", " ", "a", "pass word", " lead", "trail ", "VelvetSweatshop", "p&ss<w>\"d'", "pässwörd", "パスワード", "😀",
        "a😀b", "𠀋𠀋", "0", "ÀÉÎÕÜ", "пароль", "sixteen-chars-pw", "fifteen-chars-p",
    ];
    let nonempty = prop_oneof![
        3 => "[a-zA-Z0-9]{1,12}".prop_map(|s| s),
        2 => prop::sample::select(fixed).prop_map(|s| s.to_string()),
        4 => prop::collection::vec(pw_char(), 1..=20).prop_map(chars_to_string),
        2 => prop::collection::vec(pw_char(), 16..=64).prop_map(chars_to_string),
        1 => prop::collection::vec(pw_char(), 128..=255).prop_map(chars_to_string),
        1 => prop::sample::select(vec![255usize, 254, 129, 128, 127, 86, 85, 84, 65, 64, 63, 33, 32, 31]).prop_map(|n| {
            (0..n).map(|i| (b'a' + (i % 26) as u8) as char).collect::<String>()
        }),
        1 => (prop::sample::select(vec!['😀', '𠀋', '日', 'é']), 100usize..=255).prop_map(|(c, n)| std::iter::repeat(c).take(n).collect::<String>()),
        3 => long_mixed(),
    ]
    .prop_map(|s| cut_chars(&s, MAX_CHARS))
    .boxed();
    if allow_empty {
        prop_oneof![1 => Just(String::new()), 16 => nonempty].boxed()
    } else {
        nonempty
    }
}

/// Coarse label used in class counters and finding keys.
pub fn pw_class(s: &str) -> &'static str {
    if s.is_empty() {
        "empty-password"
    } else if utf16_len(s) > 255 {
        // at most 255 characters, but more than 255 UTF-16 code units
        "over255units-password"
    } else if s.chars().any(|c| (c as u32) > 0xffff) {
        "nonbmp-password"
    } else if !s.is_ascii() {
        "bmp-password"
    } else if s.chars().count() > 15 {
        "long-ascii-password"
    } else {
        "ascii-password"
    }
}

/// Another character with the same UTF-16 high surrogate (non-BMP) / a neighbour (BMP).
fn sibling(c: char) -> char {
    let u = c as u32;
    let cand = if u > 0xffff { u ^ 1 } else if c == 'x' { 'y' as u32 } else { 'x' as u32 };
    char::from_u32(cand).unwrap_or('x')
}

fn replace_last(pw: &str) -> String {
    let mut v: Vec<char> = pw.chars().collect();
    if let Some(l) = v.last_mut() {
        *l = sibling(*l);
    }
    v.into_iter().collect()
}

/// The longest prefix of `pw` of at most `max` UTF-16 units; when the cut falls inside a
/// surrogate pair, a different character with the same high surrogate is appended, so the
/// result agrees with `pw` on exactly the first `max` code units.
fn prefix_units_sharing(pw: &str, max: usize) -> String {
    let mut out = String::new();
    let mut n = 0;
    for c in pw.chars() {
        let l = c.len_utf16();
        if n + l > max {
            if n + 1 == max && l == 2 {
                out.push(sibling(c));
            }
            break;
        }
        n += l;
        out.push(c);
    }
    out
}

pub const WRONG_MODES: u8 = 12;

/// A password different from `pw`, built from it (near misses are the interesting wrong
/// passwords: case, one character more/less, lossy transcodings, and — for long passwords —
/// strings that agree with `pw` on the first 255 UTF-16 units / 255 UTF-16 bytes / 255 UTF-8
/// bytes and differ only behind that point).  Always `!= pw`, at most 255 characters.
pub fn wrong_of(pw: &str, mode: u8) -> String {
    let nchars = pw.chars().count();
    let long = utf16_len(pw) > 127;
    // long passwords: two thirds of the modes are the truncation near-misses
    let m = if long { [7u8, 8, 9, 10, 7, 11, 0, 1, 7, 8, 2, 6][(mode % WRONG_MODES) as usize] } else { mode % 7 };
    let cand: String = match m {
        0 => {
            if nchars < MAX_CHARS {
                format!("{}x", pw)
            } else {
                replace_last(pw)
            }
        }
        1 => {
            let mut c: Vec<char> = pw.chars().collect();
            c.pop();
            c.into_iter().collect()
        }
        2 => {
            // flip the case of the first ASCII letter
            let mut done = false;
            pw.chars()
                .map(|c| {
                    if !done && c.is_ascii_alphabetic() {
                        done = true;
                        if c.is_ascii_lowercase() {
                            c.to_ascii_uppercase()
                        } else {
                            c.to_ascii_lowercase()
                        }
                    } else {
                        c
                    }
                })
                .collect()
        }
        3 => String::new(),
        4 => pw.chars().map(|c| if c.is_ascii() { c } else { '?' }).collect(),
        5 => {
            // the UTF-8 bytes read as Latin-1 (a typical transcoding slip)
            pw.bytes().map(|b| b as char).collect::<String>()
        }
        6 => {
            if nchars > 15 {
                pw.chars().take(15).collect()
            } else {
                pw.chars().rev().collect()
            }
        }
        // agrees with pw on the first 255 UTF-16 code units, nothing behind them
        7 => prefix_units_sharing(pw, 255),
        // differs from pw only in its last character (behind any truncation point of a long password)
        8 => replace_last(pw),
        // agrees on the first 255 bytes of the UTF-16LE form (127 code units + half of one)
        9 => prefix_units_sharing(pw, 127),
        // agrees on the first 255 UTF-8 bytes
        10 => cut_utf8(pw, 255),
        // agrees on the first 256 UTF-16 code units (off-by-one of the limit)
        _ => prefix_units_sharing(pw, 256),
    };
    let cand = cut_chars(&cand, MAX_CHARS);
    if cand != pw {
        cand
    } else if pw.is_empty() {
        " ".to_string()
    } else if nchars < MAX_CHARS {
        format!("{}x", pw)
    } else {
        replace_last(pw)
    }
}
