//! Seeded proptest shards, shrinking, counters, evidence, replay files, known findings,
//! exit codes.  See DESIGN.md section 2.
use proptest::strategy::{BoxedStrategy, Strategy};
use proptest::test_runner::{Config, RngAlgorithm, TestCaseError, TestError, TestRng, TestRunner};
use rayon::prelude::*;
use serde::de::DeserializeOwned;
use serde::Serialize;
use serde_json::{json, Value};
use std::cell::RefCell;
use std::collections::{BTreeMap, BTreeSet, HashSet};
use std::fmt::Debug;
use std::panic::{self, AssertUnwindSafe};
use std::sync::atomic::{AtomicBool, AtomicU64, Ordering};
use std::sync::Mutex;
use std::time::Instant;

/// Root of the verification tree (evidence, replays, known findings). `VERIF_ROOT` in the
/// environment overrides it (used by scratch worktrees of /verif).
pub fn verif_root() -> String {
    std::env::var("VERIF_ROOT").unwrap_or_else(|_| "/verif".to_string())
}
pub const SHARDS: u64 = 16;

#[derive(Clone, Copy, PartialEq, Eq, Debug)]
pub enum Tier {
    Quick,
    Thorough,
}

impl Tier {
    pub fn name(self) -> &'static str {
        match self {
            Tier::Quick => "quick",
            Tier::Thorough => "thorough",
        }
    }
    pub fn pick<T>(self, quick: T, thorough: T) -> T {
        match self {
            Tier::Quick => quick,
            Tier::Thorough => thorough,
        }
    }
}

/// Result of judging one case.
#[derive(Clone, Debug)]
pub enum Verdict {
    Pass,
    /// The property is violated: `key` is the finding key (feature class x failure mode),
    /// `detail` a human readable description of expected vs observed.
    Fail { key: String, detail: String },
    /// Precondition of the oracle not met (generator problem): counted, never a violation.
    Discard(String),
}

impl Verdict {
    pub fn fail(key: impl Into<String>, detail: impl Into<String>) -> Verdict {
        Verdict::Fail {
            key: key.into(),
            detail: detail.into(),
        }
    }
}

/// Per-case observations handed to the oracle so it can label the case.
#[derive(Default)]
pub struct Obs {
    pub nontrivial: bool,
    pub classes: Vec<String>,
    pub excluded: Vec<String>,
}

impl Obs {
    pub fn class(&mut self, c: impl Into<String>) {
        self.classes.push(c.into());
    }
    pub fn nontrivial(&mut self, b: bool) {
        if b {
            self.nontrivial = true;
        }
    }
    pub fn excluded(&mut self, what: impl Into<String>) {
        self.excluded.push(what.into());
    }
}

#[derive(Clone, Debug, serde::Deserialize, Serialize)]
pub struct KnownFinding {
    pub property: String,
    pub key: String,
    pub status: String, // "open" | "fixed"
    #[serde(default)]
    pub root_cause: String,
    #[serde(default)]
    pub commit: Option<String>,
    pub what_fails: String,
    /// replay file relative to /verif (may be absent for fixed entries without witness)
    #[serde(default)]
    pub witness: Option<String>,
}

pub struct Violation {
    pub sub: String,
    pub key: String,
    pub detail: String,
    pub replay: String,
}

pub struct Ctx {
    pub id: String,
    pub tier: Tier,
    pub seed: u64,
    pub started: Instant,
    pub evaluations: AtomicU64,
    pub discards: AtomicU64,
    pub nontrivial: Mutex<HashSet<u64>>,
    pub classes: Mutex<BTreeMap<String, u64>>,
    pub excluded: Mutex<BTreeMap<String, u64>>,
    pub samples: Mutex<Vec<Value>>,
    pub known: Vec<KnownFinding>,
    pub known_seen: Mutex<BTreeMap<String, u64>>,
    pub violations: Mutex<Vec<Violation>>,
    pub sub_reports: Mutex<Vec<Value>>,
    pub extra: Mutex<BTreeMap<String, Value>>,
    pub exhaustive: AtomicBool,
    pub rules: Mutex<Vec<String>>,
    pub assumptions: Mutex<Vec<String>>,
    pub level: Mutex<String>,
    /// strict mode (replay): known findings are reported but never tolerated silently
    pub max_samples: usize,
}

pub fn splitmix(mut x: u64) -> u64 {
    x = x.wrapping_add(0x9E3779B97F4A7C15);
    let mut z = x;
    z = (z ^ (z >> 30)).wrapping_mul(0xBF58476D1CE4E5B9);
    z = (z ^ (z >> 27)).wrapping_mul(0x94D049BB133111EB);
    z ^ (z >> 31)
}

pub fn fnv(s: &[u8]) -> u64 {
    let mut h: u64 = 0xcbf29ce484222325;
    for b in s {
        h ^= *b as u64;
        h = h.wrapping_mul(0x100000001b3);
    }
    h
}

pub fn load_known() -> Vec<KnownFinding> {
    let mut files = vec![format!("{}/known_findings.json", verif_root())];
    // per-property fragments (merged into known_findings.json when work is integrated)
    if let Ok(rd) = std::fs::read_dir(format!("{}/known_findings.d", verif_root())) {
        let mut extra: Vec<String> = rd
            .flatten()
            .map(|e| e.path().to_string_lossy().to_string())
            .filter(|p| p.ends_with(".json"))
            .collect();
        extra.sort();
        files.extend(extra);
    }
    let mut out: Vec<KnownFinding> = Vec::new();
    for (n, p) in files.iter().enumerate() {
        match std::fs::read_to_string(p) {
            Ok(s) => match serde_json::from_str::<Vec<KnownFinding>>(&s) {
                Ok(v) => {
                    if n > 0 {
                        // a fragment entry replaces the entries of known_findings.json with
                        // the same (property, key)
                        out.retain(|o| !v.iter().any(|x| x.property == o.property && x.key == o.key));
                    }
                    out.extend(v)
                }
                Err(e) => {
                    eprintln!("HARNESS-ERROR: cannot parse {}: {}", p, e);
                    std::process::exit(2);
                }
            },
            Err(_) => {}
        }
    }
    out
}

impl Ctx {
    pub fn new(id: &str, tier: Tier, seed: u64) -> Ctx {
        let known = load_known()
            .into_iter()
            .filter(|k| k.property == id)
            .collect();
        Ctx {
            id: id.to_string(),
            tier,
            seed,
            started: Instant::now(),
            evaluations: AtomicU64::new(0),
            discards: AtomicU64::new(0),
            nontrivial: Mutex::new(HashSet::new()),
            classes: Mutex::new(BTreeMap::new()),
            excluded: Mutex::new(BTreeMap::new()),
            samples: Mutex::new(Vec::new()),
            known,
            known_seen: Mutex::new(BTreeMap::new()),
            violations: Mutex::new(Vec::new()),
            sub_reports: Mutex::new(Vec::new()),
            extra: Mutex::new(BTreeMap::new()),
            exhaustive: AtomicBool::new(false),
            rules: Mutex::new(Vec::new()),
            assumptions: Mutex::new(Vec::new()),
            level: Mutex::new("exploration".to_string()),
            max_samples: 6,
        }
    }

    pub fn is_open_known(&self, key: &str) -> bool {
        self.known.iter().any(|k| k.status == "open" && k.key == key)
    }

    pub fn rule(&self, s: &str) {
        self.rules.lock().unwrap().push(s.to_string());
    }
    pub fn assume(&self, s: &str) {
        self.assumptions.lock().unwrap().push(s.to_string());
    }
    pub fn set_extra(&self, k: &str, v: Value) {
        self.extra.lock().unwrap().insert(k.to_string(), v);
    }
    pub fn add_class(&self, c: &str, n: u64) {
        *self.classes.lock().unwrap().entry(c.to_string()).or_insert(0) += n;
    }
    pub fn add_excluded(&self, c: &str, n: u64) {
        *self.excluded.lock().unwrap().entry(c.to_string()).or_insert(0) += n;
    }
    pub fn note_known(&self, key: &str) {
        *self
            .known_seen
            .lock()
            .unwrap()
            .entry(key.to_string())
            .or_insert(0) += 1;
    }
    pub fn add_sample(&self, v: Value) {
        let mut s = self.samples.lock().unwrap();
        if s.len() < self.max_samples {
            s.push(v);
        }
    }
    /// Account for one executed case (used by the hand-written enumerations).
    pub fn count_case(&self, fingerprint: u64, nontrivial: bool) {
        self.evaluations.fetch_add(1, Ordering::Relaxed);
        if nontrivial {
            self.nontrivial.lock().unwrap().insert(fingerprint);
        }
    }
    /// Bulk accounting for exhaustive loops where every case is distinct by construction.
    pub fn count_bulk(&self, evaluations: u64) {
        self.evaluations.fetch_add(evaluations, Ordering::Relaxed);
    }

    /// Judge a verdict coming from a hand-written enumeration.  Returns true if it is a
    /// (new) violation.
    pub fn judge<T: Serialize>(&self, sub: &str, case: &T, v: Verdict) -> bool {
        match v {
            Verdict::Pass => false,
            Verdict::Discard(_) => {
                self.discards.fetch_add(1, Ordering::Relaxed);
                false
            }
            Verdict::Fail { key, detail } => {
                if self.is_open_known(&key) {
                    self.note_known(&key);
                    false
                } else {
                    self.record_violation(sub, serde_json::to_value(case).unwrap(), &key, &detail);
                    true
                }
            }
        }
    }

    pub fn record_violation(&self, sub: &str, case: Value, key: &str, detail: &str) {
        let mut viols = self.violations.lock().unwrap();
        // one replay file per (sub,key)
        if viols.iter().any(|v| v.sub == sub && v.key == key) {
            return;
        }
        let body = json!({
            "property": self.id,
            "sub": sub,
            "key": key,
            "detail": detail,
            "seed": self.seed,
            "tier": self.tier.name(),
            "case": case,
        });
        let text = serde_json::to_string_pretty(&body).unwrap();
        let h = fnv(format!("{}|{}|{}", sub, key, serde_json::to_string(&body["case"]).unwrap()).as_bytes());
        let dir = format!("{}/replays/found", verif_root());
        let _ = std::fs::create_dir_all(&dir);
        let path = format!("{}/{}-{}-{:016x}.json", dir, self.id, sub, h);
        let _ = std::fs::write(&path, text);
        eprintln!("violation[{}] sub={} key={} detail={}", self.id, sub, key, truncate(detail, 600));
        viols.push(Violation {
            sub: sub.to_string(),
            key: key.to_string(),
            detail: detail.to_string(),
            replay: path,
        });
    }

    pub fn violation_count(&self) -> usize {
        self.violations.lock().unwrap().len()
    }
}

pub fn truncate(s: &str, n: usize) -> String {
    if s.chars().count() <= n {
        s.to_string()
    } else {
        let t: String = s.chars().take(n).collect();
        format!("{}…", t)
    }
}

// ---------------------------------------------------------------------------------------
// panic capture

thread_local! {
    static LAST_PANIC: RefCell<Option<PanicInfo>> = RefCell::new(None);
}

#[derive(Clone, Debug)]
pub struct PanicInfo {
    pub msg: String,
    pub file: String,
    pub line: u32,
}

impl PanicInfo {
    /// `src/helper/formula.rs` style site without the absolute prefix and without line
    /// number (line numbers move with unrelated edits; file + message class is the key).
    pub fn site(&self) -> String {
        let f = self.file.rsplit("/src/").next().unwrap_or(&self.file);
        format!("{}", f)
    }
    pub fn short(&self) -> String {
        format!("{}:{}: {}", self.site(), self.line, truncate(&self.msg, 200))
    }
}

pub fn install_panic_hook() {
    panic::set_hook(Box::new(|info| {
        let msg = if let Some(s) = info.payload().downcast_ref::<&str>() {
            s.to_string()
        } else if let Some(s) = info.payload().downcast_ref::<String>() {
            s.clone()
        } else {
            "<non-string panic>".to_string()
        };
        let (file, line) = info
            .location()
            .map(|l| (l.file().to_string(), l.line()))
            .unwrap_or(("?".to_string(), 0));
        if std::env::var("VERIF_SHOW_PANICS").is_ok() {
            eprintln!("panic: {}:{}: {}", file, line, msg);
        }
        LAST_PANIC.with(|p| *p.borrow_mut() = Some(PanicInfo { msg, file, line }));
    }));
}

/// Run library code, turning a panic into a value.
pub fn guard<R>(f: impl FnOnce() -> R) -> Result<R, PanicInfo> {
    LAST_PANIC.with(|p| *p.borrow_mut() = None);
    match panic::catch_unwind(AssertUnwindSafe(f)) {
        Ok(r) => Ok(r),
        Err(_) => Err(LAST_PANIC.with(|p| p.borrow_mut().take()).unwrap_or(PanicInfo {
            msg: "<unknown>".into(),
            file: "?".into(),
            line: 0,
        })),
    }
}

// ---------------------------------------------------------------------------------------
// sub-checks

pub struct Sub<T> {
    pub name: &'static str,
    pub strategy: fn(Tier) -> BoxedStrategy<T>,
    /// cases per shard
    pub cases: (u32, u32),
    pub check: fn(&T, &mut Obs) -> Verdict,
    pub max_shrink_iters: u32,
}

pub trait DynSub: Sync {
    fn name(&self) -> &'static str;
    fn run(&self, ctx: &Ctx);
    fn replay(&self, ctx: &Ctx, case: &Value) -> Verdict;
}

impl<T> DynSub for Sub<T>
where
    T: Debug + Clone + Serialize + DeserializeOwned + Send + 'static,
{
    fn name(&self) -> &'static str {
        self.name
    }
    fn run(&self, ctx: &Ctx) {
        run_sub(ctx, self)
    }
    fn replay(&self, _ctx: &Ctx, case: &Value) -> Verdict {
        let c: T = match serde_json::from_value(case.clone()) {
            Ok(c) => c,
            Err(e) => return Verdict::Discard(format!("cannot deserialise case: {}", e)),
        };
        let mut obs = Obs::default();
        match guard(|| (self.check)(&c, &mut obs)) {
            Ok(v) => v,
            Err(p) => Verdict::fail(format!("harness-panic:{}", p.site()), p.short()),
        }
    }
}

fn sub_index(name: &str) -> u64 {
    fnv(name.as_bytes())
}

pub fn run_sub<T>(ctx: &Ctx, sub: &Sub<T>)
where
    T: Debug + Clone + Serialize + DeserializeOwned + Send + 'static,
{
    let cases = ctx.tier.pick(sub.cases.0, sub.cases.1);
    let t0 = Instant::now();
    let ev0 = ctx.evaluations.load(Ordering::Relaxed);
    let name = sub.name;
    let results: Vec<Option<(Value, String, String)>> = (0..SHARDS)
        .into_par_iter()
        .map(|shard| {
            let s = splitmix(
                splitmix(ctx.seed ^ fnv(ctx.id.as_bytes())) ^ splitmix(sub_index(name)) ^ splitmix(shard + 1),
            );
            let mut seed = [0u8; 32];
            let mut x = s;
            for chunk in seed.chunks_mut(8) {
                x = splitmix(x);
                chunk.copy_from_slice(&x.to_le_bytes());
            }
            let config = Config {
                cases,
                failure_persistence: None,
                max_shrink_iters: sub.max_shrink_iters,
                max_global_rejects: 65536,
                ..Config::default()
            };
            let rng = TestRng::from_seed(RngAlgorithm::ChaCha, &seed);
            let mut runner = TestRunner::new_with_rng(config, rng);
            let strategy = (sub.strategy)(ctx.tier);
            let failed = std::cell::Cell::new(false);
            let last_fail: RefCell<Option<(String, String)>> = RefCell::new(None);
            let r = runner.run(&strategy, |case| {
                let mut obs = Obs::default();
                let v = match guard(|| (sub.check)(&case, &mut obs)) {
                    Ok(v) => v,
                    Err(p) => Verdict::fail(format!("harness-panic:{}", p.site()), p.short()),
                };
                if !failed.get() {
                    // accounting only before the first failure (shrink re-runs not counted)
                    match &v {
                        Verdict::Discard(_) => {
                            ctx.discards.fetch_add(1, Ordering::Relaxed);
                        }
                        _ => {
                            ctx.evaluations.fetch_add(1, Ordering::Relaxed);
                            let ser = serde_json::to_string(&case).unwrap_or_default();
                            if obs.nontrivial {
                                let fp = fnv(ser.as_bytes()) ^ sub_index(name);
                                let mut nt = ctx.nontrivial.lock().unwrap();
                                let fresh = nt.insert(fp);
                                drop(nt);
                                if fresh {
                                    let mut s = ctx.samples.lock().unwrap();
                                    let have = s.iter().filter(|x| x["sub"] == name).count();
                                    if have < 2 && ser.len() < 6000 {
                                        s.push(json!({"sub": name, "case": serde_json::to_value(&case).unwrap_or(Value::Null)}));
                                    }
                                }
                            }
                            {
                                let mut cl = ctx.classes.lock().unwrap();
                                for c in &obs.classes {
                                    *cl.entry(format!("{}/{}", name, c)).or_insert(0) += 1;
                                }
                            }
                            if !obs.excluded.is_empty() {
                                let mut ex = ctx.excluded.lock().unwrap();
                                for c in &obs.excluded {
                                    *ex.entry(c.clone()).or_insert(0) += 1;
                                }
                            }
                        }
                    }
                }
                match v {
                    Verdict::Pass => Ok(()),
                    Verdict::Discard(why) => Err(TestCaseError::reject(why)),
                    Verdict::Fail { key, detail } => {
                        if ctx.is_open_known(&key) {
                            if !failed.get() {
                                ctx.note_known(&key);
                            }
                            Ok(())
                        } else {
                            failed.set(true);
                            *last_fail.borrow_mut() = Some((key.clone(), detail.clone()));
                            Err(TestCaseError::fail(format!("{}", key)))
                        }
                    }
                }
            });
            match r {
                Ok(()) => None,
                Err(TestError::Fail(_reason, minimal)) => {
                    // re-run the minimal case once to get its own key/detail
                    let mut obs = Obs::default();
                    let v = match guard(|| (sub.check)(&minimal, &mut obs)) {
                        Ok(v) => v,
                        Err(p) => Verdict::fail(format!("harness-panic:{}", p.site()), p.short()),
                    };
                    let (key, detail) = match v {
                        Verdict::Fail { key, detail } => (key, detail),
                        _ => last_fail
                            .borrow()
                            .clone()
                            .unwrap_or(("unstable".into(), "minimal case did not fail again".into())),
                    };
                    Some((serde_json::to_value(&minimal).unwrap_or(Value::Null), key, detail))
                }
                Err(TestError::Abort(reason)) => {
                    eprintln!("HARNESS-NOTE: {} sub {} shard {} aborted: {}", ctx.id, name, shard, reason);
                    ctx.add_class(&format!("{}/aborted-shards", name), 1);
                    None
                }
            }
        })
        .collect();
    for r in results.into_iter().flatten() {
        ctx.record_violation(name, r.0, &r.1, &r.2);
    }
    let ev1 = ctx.evaluations.load(Ordering::Relaxed);
    ctx.sub_reports.lock().unwrap().push(json!({
        "sub": name,
        "evaluations": ev1 - ev0,
        "cases_per_shard": cases,
        "shards": SHARDS,
        "wall_s": t0.elapsed().as_secs_f64(),
    }));
}

// ---------------------------------------------------------------------------------------
// witnesses of known findings / fixed findings, run before the generated search

pub fn run_witnesses(ctx: &Ctx, subs: &[Box<dyn DynSub>], extra_replay: &dyn Fn(&Ctx, &str, &Value) -> Option<Verdict>) {
    for k in ctx.known.iter() {
        let Some(w) = &k.witness else { continue };
        let path = format!("{}/{}", verif_root(), w);
        let Ok(text) = std::fs::read_to_string(&path) else {
            eprintln!("HARNESS-ERROR: witness {} missing", path);
            std::process::exit(2);
        };
        let Ok(body) = serde_json::from_str::<Value>(&text) else {
            eprintln!("HARNESS-ERROR: witness {} is not JSON", path);
            std::process::exit(2);
        };
        let subname = body["sub"].as_str().unwrap_or("");
        let case = &body["case"];
        let verdict = if let Some(s) = subs.iter().find(|s| s.name() == subname) {
            s.replay(ctx, case)
        } else if let Some(v) = extra_replay(ctx, subname, case) {
            v
        } else {
            eprintln!("HARNESS-ERROR: witness {} names unknown sub {}", path, subname);
            std::process::exit(2);
        };
        ctx.add_class("witness-replays", 1);
        match verdict {
            Verdict::Pass => {
                if k.status == "open" {
                    // the defect is gone (e.g. repaired): nothing to report
                    eprintln!("note: witness of open finding {} now passes", k.key);
                }
            }
            Verdict::Discard(why) => {
                eprintln!("HARNESS-ERROR: witness {} discarded: {}", path, why);
                std::process::exit(2);
            }
            Verdict::Fail { key, detail } => {
                if k.status == "open" && ctx.is_open_known(&key) {
                    ctx.note_known(&key);
                } else {
                    ctx.record_violation(subname, case.clone(), &key, &detail);
                }
            }
        }
    }
}

// ---------------------------------------------------------------------------------------
// finishing: evidence + stdout lines + exit code

pub fn finish(ctx: &Ctx) -> i32 {
    let viols = ctx.violations.lock().unwrap();
    let known_seen = ctx.known_seen.lock().unwrap();
    for (key, _n) in known_seen.iter() {
        if let Some(k) = ctx.known.iter().find(|k| &k.key == key) {
            println!("KNOWN-FINDING: property={} {} [{}]", ctx.id, k.what_fails, key);
        }
    }
    for v in viols.iter() {
        println!("VIOLATION property={} replay={}", ctx.id, v.replay);
    }
    let nt = ctx.nontrivial.lock().unwrap().len();
    let samples = ctx.samples.lock().unwrap().clone();
    let level = ctx.level.lock().unwrap().clone();
    let mut coverage = serde_json::Map::new();
    coverage.insert("evaluations".into(), json!(ctx.evaluations.load(Ordering::Relaxed)));
    coverage.insert("distinct_nontrivial".into(), json!(nt));
    coverage.insert("rule".into(), json!(ctx.rules.lock().unwrap().join(" | ")));
    coverage.insert("samples".into(), Value::Array(samples));
    coverage.insert("exhaustive".into(), json!(ctx.exhaustive.load(Ordering::Relaxed)));
    coverage.insert("discarded".into(), json!(ctx.discards.load(Ordering::Relaxed)));
    coverage.insert("classes".into(), json!(*ctx.classes.lock().unwrap()));
    coverage.insert("excluded_by_construction".into(), json!(*ctx.excluded.lock().unwrap()));
    coverage.insert("known_findings_seen".into(), json!(*known_seen));
    coverage.insert("sub_checks".into(), Value::Array(ctx.sub_reports.lock().unwrap().clone()));
    coverage.insert(
        "violation_keys".into(),
        json!(viols.iter().map(|v| format!("{}:{}", v.sub, v.key)).collect::<Vec<_>>()),
    );
    for (k, v) in ctx.extra.lock().unwrap().iter() {
        coverage.insert(k.clone(), v.clone());
    }
    let ev = json!({
        "property_id": ctx.id,
        "tier": ctx.tier.name(),
        "seed": ctx.seed,
        "level": level,
        "coverage": Value::Object(coverage),
        "assumptions": *ctx.assumptions.lock().unwrap(),
        "wall_s": ctx.started.elapsed().as_secs_f64(),
        "violations": viols.len(),
    });
    let dir = format!("{}/evidence", verif_root());
    let _ = std::fs::create_dir_all(&dir);
    let path = format!("{}/{}.json", dir, ctx.id);
    if let Err(e) = std::fs::write(&path, serde_json::to_string_pretty(&ev).unwrap()) {
        eprintln!("HARNESS-ERROR: cannot write evidence {}: {}", path, e);
        return 2;
    }
    println!(
        "{} {} seed={} evaluations={} distinct_nontrivial={} known_seen={} violations={} wall={:.1}s",
        ctx.id,
        ctx.tier.name(),
        ctx.seed,
        ctx.evaluations.load(Ordering::Relaxed),
        nt,
        known_seen.len(),
        viols.len(),
        ctx.started.elapsed().as_secs_f64()
    );
    if viols.is_empty() {
        0
    } else {
        1
    }
}

/// Watchdog: ends the process with exit 2 (inconclusive) after `secs`.
pub fn watchdog(secs: u64, id: String) {
    std::thread::spawn(move || {
        std::thread::sleep(std::time::Duration::from_secs(secs));
        println!("INCONCLUSIVE property={} watchdog after {}s", id, secs);
        std::process::exit(2);
    });
}

/// Monotone index mapping for shrinking-friendly selection.
pub fn pick_idx(raw: u16, len: usize) -> usize {
    if len == 0 {
        0
    } else {
        ((raw as usize) * len) >> 16
    }
}

pub fn boxed<T: Debug + 'static>(s: impl Strategy<Value = T> + 'static) -> BoxedStrategy<T> {
    s.boxed()
}

pub fn set_to_sorted(s: &BTreeSet<String>) -> Vec<String> {
    s.iter().cloned().collect()
}
