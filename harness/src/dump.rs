//! Full dump of a loaded workbook through public getters (DESIGN 3.3).  Item values are the
//! `Debug` rendering of what a public getter returns (the library's model types all derive
//! Debug and keep their content in ordered containers), keyed by what identifies the item
//! (sheet index, cell coordinate, row/column number, part name), so that two dumps can be
//! compared item by item and a difference can be named.  Containers whose iteration order
//! is not meaningful (HashMap-backed collections) are re-keyed here, never compared in
//! iteration order.
use std::collections::BTreeMap;
use umya_spreadsheet::{Spreadsheet, Worksheet};

#[derive(Debug, Clone, PartialEq, Default)]
pub struct SheetDump {
    pub name: String,
    /// (row, col) -> Debug of the cell (value, formula, style, hyperlink)
    pub cells: BTreeMap<(u32, u32), String>,
    /// row number -> Debug of the row dimension
    pub rows: BTreeMap<u32, String>,
    /// column number -> Debug of the column dimension
    pub cols: BTreeMap<u32, String>,
    /// named sheet-level parts -> Debug
    pub parts: BTreeMap<String, String>,
}

#[derive(Debug, Clone, PartialEq, Default)]
pub struct BookDump {
    pub sheets: Vec<SheetDump>,
    pub book: BTreeMap<String, String>,
}

fn dbg<T: std::fmt::Debug>(t: &T) -> String {
    format!("{:?}", t)
}

/// Effective formatting of a style (gen::style::effective: the 29 attributes C05 names, an
/// absent component standing for the workbook default), so that a cell written without
/// `s=` and one written with an xf that equals the default render alike.
pub fn style_text(st: &umya_spreadsheet::Style) -> String {
    crate::gen::style::effective(st).0.join("|")
}

/// A cell that shows nothing: no value text, no formula, default style, no hyperlink.
/// Such cells are dropped from dumps (declared normalisation: blank unstyled cells).
pub fn cell_is_void(c: &umya_spreadsheet::Cell) -> bool {
    c.get_value().is_empty() && !c.is_formula() && c.get_hyperlink().is_none() && style_text(c.get_style()) == style_text(&umya_spreadsheet::Style::default())
}

pub fn dump_sheet(ws: &Worksheet) -> SheetDump {
    let mut d = SheetDump {
        name: ws.get_name().to_string(),
        ..Default::default()
    };
    for c in ws.get_cell_collection() {
        if cell_is_void(c) {
            continue;
        }
        let co = c.get_coordinate();
        // the coordinate is the key; value/style/hyperlink are the content
        let text = format!(
            "value={:?} formula={:?} style={:?} hyperlink={:?}",
            c.get_cell_value().get_raw_value(),
            c.get_cell_value().get_formula_obj().map(|f| f.get_text().to_string()),
            style_text(c.get_style()),
            c.get_hyperlink()
        );
        d.cells.insert((*co.get_row_num(), *co.get_col_num()), text);
    }
    for r in ws.get_row_dimensions() {
        d.rows.insert(
            *r.get_row_num(),
            format!(
                "height={:?} descent={:?} thick_bot={:?} custom_height={:?} hidden={:?} style={}",
                r.get_height(),
                r.get_descent(),
                r.get_thick_bot(),
                r.get_custom_height(),
                r.get_hidden(),
                style_text(r.get_style())
            ),
        );
    }
    for c in ws.get_column_dimensions() {
        d.cols.insert(
            *c.get_col_num(),
            format!(
                "width={:?} hidden={:?} best_fit={:?} auto_width={:?} style={}",
                c.get_width(),
                c.get_hidden(),
                c.get_best_fit(),
                c.get_auto_width(),
                style_text(c.get_style())
            ),
        );
    }
    let p = &mut d.parts;
    p.insert("state".into(), dbg(&ws.get_state()));
    p.insert("merge_cells".into(), {
        let mut v: Vec<String> = ws.get_merge_cells().iter().map(|r| r.get_range()).collect();
        v.sort();
        dbg(&v)
    });
    p.insert("comments".into(), {
        let mut v: Vec<(String, String)> = ws
            .get_comments()
            .iter()
            .map(|c| (c.get_coordinate().get_coordinate(), dbg(c)))
            .collect();
        v.sort();
        dbg(&v)
    });
    p.insert("conditional_formatting".into(), dbg(&ws.get_conditional_formatting_collection()));
    p.insert("auto_filter".into(), dbg(&ws.get_auto_filter()));
    p.insert("data_validations".into(), dbg(&ws.get_data_validations()));
    p.insert("data_validations_2010".into(), dbg(&ws.get_data_validations_2010()));
    p.insert("sheet_views".into(), dbg(ws.get_sheets_views()));
    p.insert("page_setup".into(), dbg(ws.get_page_setup()));
    p.insert("page_margins".into(), dbg(ws.get_page_margins()));
    p.insert("print_options".into(), dbg(ws.get_print_options()));
    p.insert("header_footer".into(), dbg(ws.get_header_footer()));
    p.insert("sheet_protection".into(), dbg(&ws.get_sheet_protection()));
    p.insert("tab_color".into(), dbg(&ws.get_tab_color()));
    p.insert("code_name".into(), dbg(&ws.get_code_name()));
    p.insert("active_cell".into(), dbg(&ws.get_active_cell()));
    p.insert("sheet_format_properties".into(), dbg(ws.get_sheet_format_properties()));
    p.insert("row_breaks".into(), dbg(ws.get_row_breaks()));
    p.insert("column_breaks".into(), dbg(ws.get_column_breaks()));
    p.insert("tables".into(), dbg(&ws.get_tables()));
    p.insert("images".into(), dbg(&ws.get_image_collection().len()));
    p.insert("charts".into(), dbg(&ws.get_chart_collection().len()));
    p.insert("ole_objects".into(), dbg(&ws.get_ole_objects().get_ole_object().len()));
    p.insert("pivot_tables".into(), dbg(&ws.get_pivot_tables().len()));
    d
}

pub fn dump_book(book: &Spreadsheet) -> BookDump {
    let mut d = BookDump::default();
    for ws in book.get_sheet_collection_no_check() {
        d.sheets.push(dump_sheet(ws));
    }
    let b = &mut d.book;
    b.insert("defined_names".into(), {
        // where a name is stored (workbook list or a sheet's list) carries no meaning: one
        // set of (scope, name, canonical text), scope = the sheet a local name belongs to
        let mut v: Vec<(Option<u32>, String, String)> = book
            .get_defined_names()
            .iter()
            .map(|d| (if d.has_local_sheet_id() { Some(*d.get_local_sheet_id()) } else { None }, d.get_name().to_string(), crate::props::c06::canon_name_text(&d.get_address())))
            .collect();
        for (i, ws) in book.get_sheet_collection_no_check().iter().enumerate() {
            for d in ws.get_defined_names() {
                v.push((if d.has_local_sheet_id() { Some(i as u32) } else { None }, d.get_name().to_string(), crate::props::c06::canon_name_text(&d.get_address())));
            }
        }
        v.sort();
        dbg(&v)
    });
    b.insert("workbook_view".into(), dbg(book.get_workbook_view()));
    b.insert("workbook_protection".into(), dbg(&book.get_workbook_protection()));
    b.insert("properties".into(), dbg(book.get_properties()));
    b.insert("has_macros".into(), dbg(&book.get_has_macros()));
    b.insert("macros_code_len".into(), dbg(&book.get_macros_code().map(|m| (m.len(), crate::engine::fnv(m)))));
    b.insert("code_name".into(), dbg(&book.get_code_name()));
    b.insert("theme".into(), format!("{:016x}", crate::engine::fnv(dbg(book.get_theme()).as_bytes())));
    d
}

/// First difference between two dumps, as (location, left, right); None if equal.
pub fn diff_books(a: &BookDump, b: &BookDump) -> Option<(String, String, String)> {
    if a.sheets.len() != b.sheets.len() {
        return Some(("sheet-count".into(), a.sheets.len().to_string(), b.sheets.len().to_string()));
    }
    for (i, (x, y)) in a.sheets.iter().zip(b.sheets.iter()).enumerate() {
        if let Some((loc, l, r)) = diff_sheets(x, y) {
            return Some((format!("sheet[{}]/{}", i, loc), l, r));
        }
    }
    diff_maps("book", &a.book, &b.book)
}

fn diff_maps<K: Ord + std::fmt::Debug>(what: &str, a: &BTreeMap<K, String>, b: &BTreeMap<K, String>) -> Option<(String, String, String)> {
    for (k, v) in a {
        match b.get(k) {
            None => return Some((format!("{}/{:?}", what, k), v.clone(), "<absent>".into())),
            Some(w) if w != v => return Some((format!("{}/{:?}", what, k), v.clone(), w.clone())),
            _ => {}
        }
    }
    for (k, w) in b {
        if !a.contains_key(k) {
            return Some((format!("{}/{:?}", what, k), "<absent>".into(), w.clone()));
        }
    }
    None
}

pub fn diff_sheets(a: &SheetDump, b: &SheetDump) -> Option<(String, String, String)> {
    if a.name != b.name {
        return Some(("name".into(), a.name.clone(), b.name.clone()));
    }
    diff_maps("cell", &a.cells, &b.cells)
        .or_else(|| diff_maps("row", &a.rows, &b.rows))
        .or_else(|| diff_maps("col", &a.cols, &b.cols))
        .or_else(|| diff_maps("part", &a.parts, &b.parts))
}

/// All differences (bounded), for edit-locality checks.
pub fn all_diffs(a: &BookDump, b: &BookDump, max: usize) -> Vec<String> {
    all_diffs_detailed(a, b, max).into_iter().map(|d| d.0).collect()
}

/// (location, how the two sides differ)
pub fn all_diffs_detailed(a: &BookDump, b: &BookDump, max: usize) -> Vec<(String, String)> {
    let mut out: Vec<(String, String)> = Vec::new();
    if a.sheets.len() != b.sheets.len() {
        out.push(("sheet-count".to_string(), format!("{} vs {}", a.sheets.len(), b.sheets.len())));
        return out;
    }
    fn collect<K: Ord + std::fmt::Debug>(pre: &str, a: &BTreeMap<K, String>, b: &BTreeMap<K, String>, out: &mut Vec<(String, String)>, max: usize) {
        for (k, v) in a {
            if out.len() >= max {
                return;
            }
            match b.get(k) {
                Some(w) if w == v => {}
                Some(w) => out.push((format!("{}/{:?}", pre, k), focus_diff(v, w))),
                None => out.push((format!("{}/{:?}", pre, k), format!("{} ≠ <absent>", crate::engine::truncate(v, 200)))),
            }
        }
        for (k, w) in b {
            if out.len() >= max {
                return;
            }
            if !a.contains_key(k) {
                out.push((format!("{}/{:?}", pre, k), format!("<absent> ≠ {}", crate::engine::truncate(w, 200))));
            }
        }
    }
    for (i, (x, y)) in a.sheets.iter().zip(b.sheets.iter()).enumerate() {
        if x.name != y.name {
            out.push((format!("sheet[{}]/name", i), format!("{:?} vs {:?}", x.name, y.name)));
        }
        collect(&format!("sheet[{}]/cell", i), &x.cells, &y.cells, &mut out, max);
        collect(&format!("sheet[{}]/row", i), &x.rows, &y.rows, &mut out, max);
        collect(&format!("sheet[{}]/col", i), &x.cols, &y.cols, &mut out, max);
        collect(&format!("sheet[{}]/part", i), &x.parts, &y.parts, &mut out, max);
    }
    collect("book", &a.book, &b.book, &mut out, max);
    out
}

/// Shows where two long renderings differ: a little context before the first difference
/// and the next 160 characters of each side.
pub fn focus_diff(a: &str, b: &str) -> String {
    let ac: Vec<char> = a.chars().collect();
    let bc: Vec<char> = b.chars().collect();
    let mut p = 0;
    while p < ac.len() && p < bc.len() && ac[p] == bc[p] {
        p += 1;
    }
    let start = p.saturating_sub(70);
    let cut = |v: &Vec<char>| -> String { v[start.min(v.len())..(p + 160).min(v.len())].iter().collect() };
    format!("…{}… ≠ …{}…", cut(&ac), cut(&bc))
}

// ---------------------------------------------------------------------------------------
// Semantic projection: what a workbook *means*, read through value getters so that
// "attribute absent" and "attribute present with its default value" are the same thing.
// Used where an original file is compared with its first re-save (C04 ii, C11); style
// resolution is not part of it (an absent style component stands for the workbook default,
// which only the independent decoder can resolve: see pytools/ooxml_decode.py).

fn raw_kind(v: &umya_spreadsheet::CellRawValue) -> &'static str {
    use umya_spreadsheet::CellRawValue::*;
    match v {
        String(_) => "text",
        RichText(_) => "rich",
        Lazy(_) => "lazy",
        Numeric(_) => "number",
        Bool(_) => "bool",
        Error(_) => "error",
        Empty => "blank",
    }
}

pub fn sem_sheet(ws: &Worksheet) -> SheetDump {
    let mut d = SheetDump {
        name: ws.get_name().to_string(),
        ..Default::default()
    };
    let default_style = style_text(&umya_spreadsheet::Style::default());
    for c in ws.get_cell_collection() {
        let text = c.get_value().to_string();
        let link = c
            .get_hyperlink()
            .map(|h| (h.get_url().to_string(), *h.get_location(), h.get_tooltip().to_string()));
        let style = style_text(c.get_style());
        if text.is_empty() && !c.is_formula() && link.is_none() && style == default_style {
            continue;
        }
        let kind = if text.is_empty() { "blank" } else { raw_kind(c.get_raw_value()) };
        let co = c.get_coordinate();
        d.cells.insert(
            (*co.get_row_num(), *co.get_col_num()),
            format!("kind={} text={:?} formula={:?} link={:?} style={}", kind, text, c.get_formula(), link, style),
        );
    }
    for r in ws.get_row_dimensions() {
        // rows that carry nothing but defaults are not content
        let st = style_text(r.get_style());
        let s = format!("height={:?} hidden={:?} custom_height={:?} style={}", r.get_height(), r.get_hidden(), r.get_custom_height(), st);
        if *r.get_height() == 0.0 && !*r.get_hidden() && !*r.get_custom_height() && st == default_style {
            continue;
        }
        d.rows.insert(*r.get_row_num(), s);
    }
    for c in ws.get_column_dimensions() {
        d.cols.insert(
            *c.get_col_num(),
            format!("width={:?} hidden={:?} best_fit={:?} style={}", c.get_width(), c.get_hidden(), c.get_best_fit(), style_text(c.get_style())),
        );
    }
    let full = dump_sheet(ws);
    for (k, v) in full.parts {
        match k.as_str() {
            // re-rendered below through value getters
            "tables" | "sheet_format_properties" | "page_margins" | "sheet_views" | "code_name" | "active_cell" => {}
            // compared through props::c06::project / diff (sets keyed by anchor, value getters)
            "comments" | "conditional_formatting" | "data_validations" | "data_validations_2010" | "page_setup" | "header_footer" | "sheet_protection" | "tab_color" | "print_options" => {}
            _ => {
                d.parts.insert(k, v);
            }
        }
    }
    d.parts.insert("tables".into(), {
        let v: Vec<String> = ws
            .get_tables()
            .iter()
            .map(|t| {
                format!(
                    "name={:?} display={:?} area={:?} columns={:?} style={:?} totals_shown={:?} totals_count={:?}",
                    t.get_name(),
                    t.get_display_name(),
                    (t.get_area().0.get_coordinate(), t.get_area().1.get_coordinate()),
                    t.get_columns()
                        .iter()
                        .map(|c| (c.get_name().to_string(), c.get_totals_row_label().unwrap_or("").to_string(), dbg(c.get_totals_row_function()), c.get_calculated_column_formula().cloned()))
                        .collect::<Vec<_>>(),
                    t.get_style_info().map(|s| (s.get_name().to_string(), s.is_show_first_col(), s.is_show_last_col(), s.is_show_row_stripes(), s.is_show_col_stripes())),
                    t.get_totals_row_shown(),
                    t.get_totals_row_count()
                )
            })
            .collect();
        dbg(&v)
    });
    d.parts.insert("one_cell_anchors".into(), {
        // shapes anchored to one cell (text boxes as LibreOffice/Google/openpyxl write them)
        let v: Vec<String> = ws
            .get_worksheet_drawing()
            .get_one_cell_anchor_collection()
            .iter()
            .map(|a| {
                format!(
                    "from={} cx={} cy={} name={:?}",
                    a.get_from_marker().get_coordinate(),
                    a.get_extent().get_cx(),
                    a.get_extent().get_cy(),
                    a.get_shape().map(|s| s.get_non_visual_shape_properties().get_non_visual_drawing_properties().get_name().to_string())
                )
            })
            .collect();
        dbg(&v)
    });
    d.parts.insert("data_validations_2010".into(), {
        // Excel-2010 (x14) data validations, through value getters
        let v: Vec<String> = match ws.get_data_validations_2010() {
            None => Vec::new(),
            Some(list) => list
                .get_data_validation_list()
                .iter()
                .map(|x| {
                    format!(
                        "type={:?} op={:?} f1={:?} f2={:?} sqref={:?}",
                        x.get_type(),
                        x.get_operator(),
                        x.get_formula1().map(|f| f.get_value().get_value().get_address()),
                        x.get_formula2().map(|f| f.get_value().get_value().get_address()),
                        x.get_reference_sequence().get_sqref()
                    )
                })
                .collect(),
        };
        dbg(&v)
    });
    d.parts.insert("page_margins".into(), {
        let m = ws.get_page_margins();
        dbg(&(m.get_left(), m.get_right(), m.get_top(), m.get_bottom(), m.get_header(), m.get_footer()))
    });
    d
}

pub fn sem_book(book: &Spreadsheet) -> BookDump {
    let mut d = BookDump::default();
    for ws in book.get_sheet_collection_no_check() {
        d.sheets.push(sem_sheet(ws));
    }
    let full = dump_book(book);
    for (k, v) in full.book {
        if k != "properties" {
            d.book.insert(k, v);
        }
    }
    let p = book.get_properties();
    d.book.insert(
        "properties".into(),
        dbg(&(
            p.get_creator(),
            p.get_last_modified_by(),
            p.get_created(),
            p.get_modified(),
            p.get_title(),
            p.get_description(),
            p.get_subject(),
            p.get_keywords(),
            p.get_category(),
            p.get_manager(),
            p.get_company(),
        )),
    );
    d
}

/// A sheet projection without the style part of cells, rows and columns, and without blank
/// cells that carry nothing but a style (used where a file's own default record
/// `cellXfs[0]` makes "no style" and "default style" indistinguishable: see C03's open
/// finding implicit-xf0/style-not-applied).
pub fn strip_styles(d: &SheetDump) -> SheetDump {
    let mut d = d.clone();
    d.cells.retain(|_, v| !v.starts_with("kind=blank text=\"\" formula=\"\" link=None"));
    for m in [&mut d.rows, &mut d.cols] {
        for v in m.values_mut() {
            if let Some(i) = v.rfind(" style=") {
                v.truncate(i);
            }
        }
    }
    for v in d.cells.values_mut() {
        if let Some(i) = v.rfind(" style=") {
            v.truncate(i);
        }
    }
    d
}
