use serde_json::Value;
use umya_verif::engine::*;
use umya_verif::props;

fn usage() -> ! {
    eprintln!("usage: verif <ID> quick|thorough | verif <ID> --replay <file> | verif list");
    std::process::exit(2);
}

fn main() {
    let args: Vec<String> = std::env::args().collect();
    if args.len() < 2 {
        usage();
    }
    if args[1] == "list" {
        for p in props::all() {
            println!("{}", p.id);
        }
        return;
    }
    if args[1] == "helper" {
        // single-purpose helper processes (fault injection etc.)
        std::process::exit(props::helper_main(&args[2..]));
    }
    if args.len() < 3 {
        usage();
    }
    let id = args[1].as_str();
    let Some(prop) = props::all().into_iter().find(|p| p.id == id) else {
        eprintln!("unknown property {}", id);
        std::process::exit(2);
    };
    let seed: u64 = std::env::var("VERIF_SEED")
        .ok()
        .and_then(|s| s.trim().parse::<i64>().ok())
        .map(|v| v as u64)
        .unwrap_or(0);
    install_panic_hook();
    let threads: usize = std::env::var("VERIF_THREADS").ok().and_then(|s| s.parse().ok()).unwrap_or(16);
    rayon::ThreadPoolBuilder::new()
        .num_threads(threads)
        .stack_size(64 * 1024 * 1024)
        .build_global()
        .ok();

    if args[2] == "--replay" {
        let Some(path) = args.get(3) else { usage() };
        let text = std::fs::read_to_string(path).unwrap_or_else(|e| {
            eprintln!("cannot read {}: {}", path, e);
            std::process::exit(2)
        });
        let body: Value = serde_json::from_str(&text).unwrap_or_else(|e| {
            eprintln!("cannot parse {}: {}", path, e);
            std::process::exit(2)
        });
        let ctx = Ctx::new(id, Tier::Quick, seed);
        let subname = body["sub"].as_str().unwrap_or("").to_string();
        let case = body["case"].clone();
        let subs = (prop.subs)();
        let verdict = if let Some(s) = subs.iter().find(|s| s.name() == subname) {
            s.replay(&ctx, &case)
        } else if let Some(v) = (prop.replay_extra)(&ctx, &subname, &case) {
            v
        } else {
            eprintln!("unknown sub-check {} for {}", subname, id);
            std::process::exit(2);
        };
        match verdict {
            Verdict::Pass => {
                println!("replay {}: property held", path);
                std::process::exit(0);
            }
            Verdict::Discard(why) => {
                println!("replay {}: case not applicable ({})", path, why);
                std::process::exit(2);
            }
            Verdict::Fail { key, detail } => {
                println!("replay {}: key={} detail={}", path, key, truncate(&detail, 2000));
                if ctx.is_open_known(&key) {
                    let k = ctx.known.iter().find(|k| k.key == key).unwrap();
                    println!("KNOWN-FINDING: property={} {} [{}]", id, k.what_fails, key);
                    std::process::exit(0);
                }
                println!("VIOLATION property={} replay={}", id, path);
                std::process::exit(1);
            }
        }
    }

    let tier = match args[2].as_str() {
        "quick" => Tier::Quick,
        "thorough" => Tier::Thorough,
        _ => usage(),
    };
    let ctx = Ctx::new(id, tier, seed);
    watchdog(tier.pick(prop.watchdog_s.0, prop.watchdog_s.1), id.to_string());
    (prop.describe)(&ctx);
    let subs = (prop.subs)();
    let rx = prop.replay_extra;
    run_witnesses(&ctx, &subs, &|c, s, v| rx(c, s, v));
    let only = std::env::var("VERIF_ONLY_SUB").ok();
    for s in subs.iter() {
        if let Some(o) = &only {
            if o != s.name() {
                continue;
            }
        }
        s.run(&ctx);
    }
    if only.is_none() || only.as_deref() == Some("extra") {
        (prop.extra)(&ctx);
    }
    std::process::exit(finish(&ctx));
}
