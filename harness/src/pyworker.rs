//! Persistent `python3 pytools/ooxml_decode.py --worker` (one per thread), JSON lines over
//! pipes, and the typed form of the decoder's canonical JSON (DESIGN 3.6).
//!
//! The worker is an *oracle component*: if it dies, answers garbage or reports an internal
//! error the process ends with exit 2 (harness error) — never with a VIOLATION.
use crate::engine::verif_root;
use base64::Engine as _;
use serde::{Deserialize, Serialize};
use serde_json::{json, Value};
use std::cell::RefCell;
use std::io::{BufRead, BufReader, Write};
use std::process::{Child, ChildStdin, ChildStdout, Command, Stdio};

// ---------------------------------------------------------------------------------------
// typed decode result

#[derive(Debug, Clone, Default, Serialize, Deserialize, PartialEq)]
pub struct RuleViolation {
    pub rule: String,
    #[serde(default)]
    pub part: String,
    #[serde(default)]
    pub detail: String,
}

#[derive(Debug, Clone, Default, Serialize, Deserialize, PartialEq)]
pub struct DColor {
    #[serde(default)]
    pub rgb: Option<String>,
    #[serde(default)]
    pub theme: Option<String>,
    #[serde(default)]
    pub indexed: Option<String>,
    #[serde(default)]
    pub auto: Option<String>,
    #[serde(default)]
    pub tint: Option<String>,
}

#[derive(Debug, Clone, Default, Serialize, Deserialize, PartialEq)]
pub struct DFont {
    #[serde(default)]
    pub name: Option<String>,
    #[serde(default)]
    pub size: Option<String>,
    #[serde(default)]
    pub bold: bool,
    #[serde(default)]
    pub italic: bool,
    #[serde(default)]
    pub strike: bool,
    #[serde(default)]
    pub underline: Option<String>,
    #[serde(default)]
    pub color: Option<DColor>,
    #[serde(default)]
    pub vert_align: Option<String>,
    #[serde(default)]
    pub family: Option<String>,
    #[serde(default)]
    pub charset: Option<String>,
    #[serde(default)]
    pub scheme: Option<String>,
}

#[derive(Debug, Clone, Default, Serialize, Deserialize, PartialEq)]
pub struct DFill {
    #[serde(default)]
    pub kind: String, // pattern | gradient | none
    #[serde(default)]
    pub pattern: Option<String>,
    #[serde(default)]
    pub fg: Option<DColor>,
    #[serde(default)]
    pub bg: Option<DColor>,
}

#[derive(Debug, Clone, Default, Serialize, Deserialize, PartialEq)]
pub struct DBorderSide {
    #[serde(default)]
    pub style: Option<String>,
    #[serde(default)]
    pub color: Option<DColor>,
}

#[derive(Debug, Clone, Default, Serialize, Deserialize, PartialEq)]
pub struct DBorder {
    #[serde(default)]
    pub left: Option<DBorderSide>,
    #[serde(default)]
    pub right: Option<DBorderSide>,
    #[serde(default)]
    pub top: Option<DBorderSide>,
    #[serde(default)]
    pub bottom: Option<DBorderSide>,
    #[serde(default)]
    pub diagonal: Option<DBorderSide>,
    #[serde(default)]
    pub diagonal_up: bool,
    #[serde(default)]
    pub diagonal_down: bool,
}

#[derive(Debug, Clone, Default, Serialize, Deserialize, PartialEq)]
pub struct DAlignment {
    #[serde(default)]
    pub horizontal: Option<String>,
    #[serde(default)]
    pub vertical: Option<String>,
    #[serde(default)]
    pub wrap_text: Option<bool>,
    #[serde(default)]
    pub text_rotation: Option<String>,
    #[serde(default)]
    pub indent: Option<String>,
    #[serde(default)]
    pub shrink_to_fit: Option<bool>,
    #[serde(default)]
    pub reading_order: Option<String>,
}

#[derive(Debug, Clone, Default, Serialize, Deserialize, PartialEq)]
pub struct DProtection {
    #[serde(default)]
    pub locked: Option<bool>,
    #[serde(default)]
    pub hidden: Option<bool>,
}

/// `applyX` flags of one xf: `None` = attribute absent.
#[derive(Debug, Clone, Default, Serialize, Deserialize, PartialEq)]
pub struct DApply {
    #[serde(default, rename = "applyNumberFormat")]
    pub number_format: Option<bool>,
    #[serde(default, rename = "applyFont")]
    pub font: Option<bool>,
    #[serde(default, rename = "applyFill")]
    pub fill: Option<bool>,
    #[serde(default, rename = "applyBorder")]
    pub border: Option<bool>,
    #[serde(default, rename = "applyAlignment")]
    pub alignment: Option<bool>,
    #[serde(default, rename = "applyProtection")]
    pub protection: Option<bool>,
}

/// One `cellXfs/xf`, resolved: ids, the records they point to, number format code.
#[derive(Debug, Clone, Default, Serialize, Deserialize, PartialEq)]
pub struct DXf {
    pub num_fmt_id: u32,
    /// declared code, or the ECMA-376 18.8.30 built-in code, or None (built-in id without an en-US code)
    #[serde(default)]
    pub num_fmt_code: Option<String>,
    #[serde(default)]
    pub num_fmt_builtin: bool,
    #[serde(default)]
    pub font_id: u32,
    #[serde(default)]
    pub fill_id: u32,
    #[serde(default)]
    pub border_id: u32,
    #[serde(default)]
    pub xf_id: Option<u32>,
    #[serde(default)]
    pub apply: DApply,
    /// apply flags of the cellStyleXfs record named by xfId
    #[serde(default)]
    pub style_apply: Option<DApply>,
    #[serde(default)]
    pub font: Option<DFont>,
    #[serde(default)]
    pub fill: Option<DFill>,
    #[serde(default)]
    pub border: Option<DBorder>,
    #[serde(default)]
    pub alignment: Option<DAlignment>,
    #[serde(default)]
    pub style_alignment: Option<DAlignment>,
    #[serde(default)]
    pub protection: Option<DProtection>,
    #[serde(default)]
    pub style_protection: Option<DProtection>,
    #[serde(default)]
    pub quote_prefix: bool,
}

#[derive(Debug, Clone, Default, Serialize, Deserialize, PartialEq)]
pub struct DRun {
    pub text: String,
    #[serde(default)]
    pub font: Option<DFont>,
}

#[derive(Debug, Clone, Default, Serialize, Deserialize, PartialEq)]
pub struct DCell {
    /// normalised reference (computed from position when the file has no `r`)
    #[serde(rename = "ref")]
    pub r: String,
    pub row: u32,
    pub col: u32,
    #[serde(default)]
    pub has_r: bool,
    /// raw `t` attribute
    #[serde(default)]
    pub t: Option<String>,
    /// cellXfs index (0 when absent)
    #[serde(default)]
    pub s: u32,
    /// the cell has an `s` attribute
    #[serde(default)]
    pub has_s: bool,
    /// blank | text | rich | number | bool | error | date-iso | invalid
    pub kind: String,
    #[serde(default)]
    pub value: String,
    /// IEEE-754 bits (16 hex digits) of the number for kind == number
    #[serde(default)]
    pub bits: Option<String>,
    /// formula text, shared-formula children expanded; None = no formula (or a data table)
    #[serde(default)]
    pub formula: Option<String>,
    #[serde(default)]
    pub f_type: Option<String>,
    #[serde(default)]
    pub f_si: Option<u32>,
    #[serde(default)]
    pub f_ref: Option<String>,
    #[serde(default)]
    pub f_master: bool,
    /// the expansion left the grid or the block has no master: do not compare
    #[serde(default)]
    pub f_uncertain: bool,
    #[serde(default)]
    pub f_anchor: Option<String>,
    /// edge blanks without xml:space="preserve": readers may or may not trim
    #[serde(default)]
    pub ws_ambiguous: bool,
    #[serde(default)]
    pub runs: Option<Vec<DRun>>,
    #[serde(default)]
    pub phonetic: bool,
    #[serde(default)]
    pub sst_index: Option<u32>,
}

impl DCell {
    pub fn number(&self) -> Option<f64> {
        self.bits.as_ref().and_then(|b| u64::from_str_radix(b, 16).ok()).map(f64::from_bits)
    }
}

#[derive(Debug, Clone, Default, Serialize, Deserialize, PartialEq)]
pub struct DHyperlink {
    #[serde(rename = "ref", default)]
    pub r: Option<String>,
    #[serde(default)]
    pub rid: Option<String>,
    /// Target of the relationship (external links)
    #[serde(default)]
    pub target: Option<String>,
    #[serde(default)]
    pub external: Option<bool>,
    #[serde(default)]
    pub location: Option<String>,
    #[serde(default)]
    pub tooltip: Option<String>,
    #[serde(default)]
    pub display: Option<String>,
}

#[derive(Debug, Clone, Default, Serialize, Deserialize, PartialEq)]
pub struct DComment {
    #[serde(rename = "ref", default)]
    pub r: Option<String>,
    #[serde(default)]
    pub author: Option<String>,
    #[serde(default)]
    pub text: String,
    #[serde(default)]
    pub rich: bool,
}

#[derive(Debug, Clone, Default, Serialize, Deserialize, PartialEq)]
pub struct DValidation {
    #[serde(default)]
    pub sqref: Option<String>,
    #[serde(rename = "type", default)]
    pub kind: Option<String>,
    #[serde(default)]
    pub formula1: Option<String>,
    #[serde(default)]
    pub formula2: Option<String>,
}

#[derive(Debug, Clone, Default, Serialize, Deserialize, PartialEq)]
pub struct DCondFormat {
    #[serde(default)]
    pub sqref: Option<String>,
    #[serde(default)]
    pub rules: u32,
    #[serde(default)]
    pub dxf_ids: Vec<Option<u32>>,
    #[serde(default)]
    pub types: Vec<Option<String>>,
}

#[derive(Debug, Clone, Default, Serialize, Deserialize, PartialEq)]
pub struct DTable {
    #[serde(default)]
    pub part: String,
    #[serde(default)]
    pub id: Option<String>,
    #[serde(default)]
    pub name: Option<String>,
    #[serde(default)]
    pub display_name: Option<String>,
    #[serde(rename = "ref", default)]
    pub r: Option<String>,
    /// column names as the XML parser delivers them (attribute value, entities resolved)
    #[serde(default)]
    pub columns: Vec<Option<String>>,
    /// the same with _xHHHH_ escapes decoded (ST_Xstring)
    #[serde(default)]
    pub columns_decoded: Vec<String>,
}

#[derive(Debug, Clone, Default, Serialize, Deserialize, PartialEq)]
pub struct DCol {
    #[serde(default)]
    pub min: Option<u32>,
    #[serde(default)]
    pub max: Option<u32>,
    #[serde(default)]
    pub width: Option<String>,
    #[serde(default)]
    pub hidden: bool,
    #[serde(default)]
    pub style: Option<u32>,
    #[serde(default)]
    pub custom_width: bool,
    #[serde(default)]
    pub best_fit: bool,
}

#[derive(Debug, Clone, Default, Serialize, Deserialize, PartialEq)]
pub struct DRow {
    pub r: u32,
    #[serde(default)]
    pub ht: Option<String>,
    #[serde(default)]
    pub hidden: bool,
    #[serde(default)]
    pub s: Option<u32>,
    #[serde(default)]
    pub custom_format: bool,
    #[serde(default)]
    pub custom_height: bool,
    #[serde(default)]
    pub spans: Option<String>,
    #[serde(default)]
    pub has_r: bool,
}

#[derive(Debug, Clone, Default, Serialize, Deserialize, PartialEq)]
pub struct DSheet {
    #[serde(default)]
    pub name: Option<String>,
    #[serde(default)]
    pub sheet_id: Option<u32>,
    /// visible | hidden | veryHidden
    #[serde(default)]
    pub state: String,
    #[serde(default)]
    pub rid: Option<String>,
    #[serde(default)]
    pub part: Option<String>,
    /// worksheet | chartsheet | dialogsheet | macrosheet | other | unresolved
    #[serde(default)]
    pub kind: String,
    #[serde(default)]
    pub cells: Vec<DCell>,
    #[serde(default)]
    pub merged: Vec<Option<String>>,
    #[serde(default)]
    pub hyperlinks: Vec<DHyperlink>,
    #[serde(default)]
    pub comments: Vec<DComment>,
    #[serde(default)]
    pub data_validations: Vec<DValidation>,
    #[serde(default)]
    pub conditional_formats: Vec<DCondFormat>,
    #[serde(default)]
    pub tables: Vec<DTable>,
    #[serde(default)]
    pub cols: Vec<DCol>,
    #[serde(default)]
    pub rows: Vec<DRow>,
    #[serde(default)]
    pub dimension: Option<String>,
    #[serde(default)]
    pub auto_filter: Option<String>,
    /// local names of the worksheet's children in document order
    #[serde(default)]
    pub children: Vec<String>,
    #[serde(default)]
    pub decode_notes: Vec<String>,
}

#[derive(Debug, Clone, Default, Serialize, Deserialize, PartialEq)]
pub struct DDefinedName {
    #[serde(default)]
    pub name: Option<String>,
    #[serde(default)]
    pub local_sheet_id: Option<u32>,
    #[serde(default)]
    pub text: String,
    #[serde(default)]
    pub hidden: bool,
}

#[derive(Debug, Clone, Default, Serialize, Deserialize, PartialEq)]
pub struct DStyleCounts {
    #[serde(rename = "numFmts", default)]
    pub num_fmts: u32,
    #[serde(default)]
    pub fonts: u32,
    #[serde(default)]
    pub fills: u32,
    #[serde(default)]
    pub borders: u32,
    #[serde(rename = "cellStyleXfs", default)]
    pub cell_style_xfs: u32,
    #[serde(rename = "cellXfs", default)]
    pub cell_xfs: u32,
    #[serde(rename = "cellStyles", default)]
    pub cell_styles: u32,
    #[serde(default)]
    pub dxfs: u32,
    /// the `count` attributes as written in the file
    #[serde(default)]
    pub declared: std::collections::BTreeMap<String, Option<u32>>,
}

#[derive(Debug, Clone, Default, Serialize, Deserialize, PartialEq)]
pub struct DNumFmt {
    pub id: u32,
    pub code: String,
}

#[derive(Debug, Clone, Default, Serialize, Deserialize, PartialEq)]
pub struct DStyles {
    #[serde(default)]
    pub part: Option<String>,
    #[serde(default)]
    pub counts: DStyleCounts,
    #[serde(default)]
    pub cell_xfs: Vec<DXf>,
    #[serde(default)]
    pub num_fmts: Vec<DNumFmt>,
}

#[derive(Debug, Clone, Default, Serialize, Deserialize, PartialEq)]
pub struct DSstItem {
    pub text: String,
    #[serde(default)]
    pub rich: bool,
    #[serde(default)]
    pub phonetic: bool,
}

#[derive(Debug, Clone, Default, Serialize, Deserialize, PartialEq)]
pub struct DSst {
    #[serde(default)]
    pub part: Option<String>,
    /// `count` / `uniqueCount` attributes as written
    #[serde(default)]
    pub count: Option<u32>,
    #[serde(default)]
    pub unique_count: Option<u32>,
    /// number of `<si>` elements
    #[serde(default)]
    pub si: u32,
    #[serde(default)]
    pub items: Vec<DSstItem>,
}

#[derive(Debug, Clone, Default, Serialize, Deserialize, PartialEq)]
pub struct Decoded {
    #[serde(default)]
    pub workbook_part: String,
    /// names of all parts (zip entries that are not directories), sorted
    #[serde(default)]
    pub parts: Vec<String>,
    #[serde(default)]
    pub active_tab: u32,
    #[serde(default)]
    pub date1904: bool,
    #[serde(default)]
    pub sheets: Vec<DSheet>,
    #[serde(default)]
    pub defined_names: Vec<DDefinedName>,
    #[serde(default)]
    pub styles: DStyles,
    #[serde(default)]
    pub shared_strings: DSst,
    /// every attribute value and text node of every XML part (only with `with_strings`)
    #[serde(default)]
    pub strings: Option<Vec<String>>,
}

/// Answer to one request.
#[derive(Debug, Clone, Default)]
pub struct Answer {
    /// `Some` for validate/both
    pub violations: Option<Vec<RuleViolation>>,
    /// `Some` for decode/both when the package could be decoded
    pub decoded: Option<Decoded>,
    /// why it could not be decoded (not a zip, no workbook part)
    pub decode_error: Option<String>,
    pub strings: Option<Vec<String>>,
}

// ---------------------------------------------------------------------------------------
// the worker process

struct Worker {
    child: Child,
    stdin: ChildStdin,
    stdout: BufReader<ChildStdout>,
}

impl Worker {
    fn spawn() -> std::io::Result<Worker> {
        let script = format!("{}/pytools/ooxml_decode.py", verif_root());
        let mut child = Command::new("python3")
            .arg("-B")
            .arg(&script)
            .arg("--worker")
            .stdin(Stdio::piped())
            .stdout(Stdio::piped())
            .stderr(Stdio::inherit())
            .spawn()?;
        let stdin = child.stdin.take().unwrap();
        let stdout = BufReader::with_capacity(1 << 20, child.stdout.take().unwrap());
        Ok(Worker { child, stdin, stdout })
    }

    fn roundtrip(&mut self, line: &str) -> std::io::Result<String> {
        self.stdin.write_all(line.as_bytes())?;
        self.stdin.write_all(b"\n")?;
        self.stdin.flush()?;
        let mut out = String::new();
        let n = self.stdout.read_line(&mut out)?;
        if n == 0 {
            return Err(std::io::Error::new(std::io::ErrorKind::UnexpectedEof, "worker closed its stdout"));
        }
        Ok(out)
    }
}

impl Drop for Worker {
    fn drop(&mut self) {
        let _ = self.child.kill();
        let _ = self.child.wait();
    }
}

thread_local! {
    static WORKER: RefCell<Option<Worker>> = const { RefCell::new(None) };
}

fn harness_error(msg: &str) -> ! {
    eprintln!("HARNESS-ERROR: python worker: {}", msg);
    println!("INCONCLUSIVE python-worker: {}", crate::engine::truncate(msg, 300));
    std::process::exit(2);
}

/// Send one request; on a dead worker restart it once and repeat; a second failure (or an
/// `ok:false` answer, which means the tool itself is broken) ends the process with exit 2.
fn request(req: &Value) -> Value {
    let line = serde_json::to_string(req).unwrap();
    WORKER.with(|w| {
        let mut slot = w.borrow_mut();
        let mut last_err = String::new();
        for attempt in 0..2 {
            if slot.is_none() {
                match Worker::spawn() {
                    Ok(wk) => *slot = Some(wk),
                    Err(e) => harness_error(&format!("cannot start python3: {}", e)),
                }
            }
            match slot.as_mut().unwrap().roundtrip(&line) {
                Ok(text) => match serde_json::from_str::<Value>(&text) {
                    Ok(v) => {
                        if v["ok"].as_bool() == Some(true) {
                            return v;
                        }
                        harness_error(&format!("request failed: {}", v["error"]));
                    }
                    Err(e) => {
                        last_err = format!("unparsable answer ({}): {}", e, crate::engine::truncate(&text, 200));
                    }
                },
                Err(e) => {
                    last_err = format!("pipe error: {}", e);
                }
            }
            // dead or confused worker: drop it (kills the child), retry once with a fresh one
            *slot = None;
            if attempt == 0 {
                eprintln!("note: python worker restarted ({})", last_err);
            }
        }
        harness_error(&last_err)
    })
}

fn answer(v: Value) -> Answer {
    let violations = if v["violations"].is_null() {
        None
    } else {
        match serde_json::from_value::<Vec<RuleViolation>>(v["violations"].clone()) {
            Ok(x) => Some(x),
            Err(e) => harness_error(&format!("violations do not deserialise: {}", e)),
        }
    };
    let decoded = if v["decoded"].is_null() {
        None
    } else {
        match serde_json::from_value::<Decoded>(v["decoded"].clone()) {
            Ok(x) => Some(x),
            Err(e) => harness_error(&format!("decode result does not deserialise: {}", e)),
        }
    };
    let strings = if v["strings"].is_null() {
        None
    } else {
        serde_json::from_value::<Vec<String>>(v["strings"].clone()).ok()
    };
    Answer {
        violations,
        decoded,
        decode_error: v["decode_error"].as_str().map(|s| s.to_string()),
        strings,
    }
}

fn payload(op: &str, bytes: &[u8]) -> Value {
    json!({"op": op, "b64": base64::engine::general_purpose::STANDARD.encode(bytes)})
}

/// Rule violations of the package (empty = valid by the rules of DESIGN 3.6).
pub fn validate(bytes: &[u8]) -> Vec<RuleViolation> {
    answer(request(&payload("validate", bytes))).violations.unwrap_or_default()
}

/// Independent decode of the package; `Err` = not decodable at all (not a zip, no workbook).
pub fn decode(bytes: &[u8]) -> Result<Decoded, String> {
    let a = answer(request(&payload("decode", bytes)));
    match a.decoded {
        Some(d) => Ok(d),
        None => Err(a.decode_error.unwrap_or_else(|| "no decode result".into())),
    }
}

/// Validate and decode in one round trip.
pub fn both(bytes: &[u8]) -> (Vec<RuleViolation>, Result<Decoded, String>) {
    let a = answer(request(&payload("both", bytes)));
    let d = match a.decoded {
        Some(d) => Ok(d),
        None => Err(a.decode_error.unwrap_or_else(|| "no decode result".into())),
    };
    (a.violations.unwrap_or_default(), d)
}

/// The same for a file on disk (the worker reads it itself).
pub fn both_path(path: &str) -> (Vec<RuleViolation>, Result<Decoded, String>) {
    let a = answer(request(&json!({"op": "both", "path": path})));
    let d = match a.decoded {
        Some(d) => Ok(d),
        None => Err(a.decode_error.unwrap_or_else(|| "no decode result".into())),
    };
    (a.violations.unwrap_or_default(), d)
}

/// Decode plus the list of every attribute value / text node of every XML part (C12).
pub fn decode_with_strings(bytes: &[u8]) -> Result<Decoded, String> {
    let mut req = payload("decode", bytes);
    req["with_strings"] = json!(true);
    let a = answer(request(&req));
    match a.decoded {
        Some(d) => Ok(d),
        None => Err(a.decode_error.unwrap_or_else(|| "no decode result".into())),
    }
}

/// Only the string list.
pub fn all_strings(bytes: &[u8]) -> Result<Vec<String>, String> {
    let a = answer(request(&payload("strings", bytes)));
    match a.strings {
        Some(s) => Ok(s),
        None => Err(a.decode_error.unwrap_or_else(|| "no string list".into())),
    }
}

/// Used by the self-tests: make sure a worker can be started at all.
pub fn ping() -> bool {
    request(&json!({"op": "ping"}))["pong"].as_bool() == Some(true)
}
