//! bytes -> formula grammar (arbitrary::Unstructured) -> the C09 oracle.
//! A finding that is not an open known finding aborts (libFuzzer saves the input).
#![no_main]
use libfuzzer_sys::arbitrary::{Result, Unstructured};
use libfuzzer_sys::fuzz_target;
use umya_verif::gen::formula::*;
use umya_verif::props::c09::{fuzz_one, Case, Path};

const FUNCS: &[&str] = &["SUM", "IF", "INDEX", "OFFSET", "LOG10", "_xlfn.XLOOKUP", "TEXT", "N"];
const OPS: &[&str] = &["+", "-", "*", "/", "^", "&", "=", "<", ">", "<=", ">=", "<>"];
const SHEETS: &[&str] = &["Data", "My Sheet", "It's", "a!b", "2024", "A1", "x\"y", "日本"];
const NAMES: &[&str] = &["CO2E", "Mass2.5E", "co2e", "Q1.Sales", "A1_total", "rate", "MyName", "TAX2024RATE", "_xlnm.Print_Area", "my.name", "RATE", "税率"];
const STRS: &[&str] = &["", "a", "a\"b", "\"", "it's", "x,y", "#REF!", "'S'!A1", "{1}", "[x]", " "];
const NUMS: &[&str] = &["0", "1", "42", "1.5", ".5", "1E5", "1.5E+10", "2E-3"];
const SPECS: &[&str] = &["[Col]", "[#All]", "[[#This Row],[Col]]", "[@Col]", "[[A]:[B]]"];

fn pick<'a>(u: &mut Unstructured, l: &[&'a str]) -> Result<&'a str> {
    Ok(l[u.int_in_range(0..=l.len() - 1)?])
}

fn col(u: &mut Unstructured) -> Result<u32> {
    Ok(match u.int_in_range(0..=3u8)? {
        0 => u.int_in_range(1..=3)?,
        1 => u.int_in_range(16382..=16384)?,
        2 => u.int_in_range(1..=30)?,
        _ => u.int_in_range(1..=MAX_COL)?,
    })
}
fn row(u: &mut Unstructured) -> Result<u32> {
    Ok(match u.int_in_range(0..=3u8)? {
        0 => u.int_in_range(1..=3)?,
        1 => u.int_in_range(1048574..=1048576)?,
        2 => u.int_in_range(1..=30)?,
        _ => u.int_in_range(1..=MAX_ROW)?,
    })
}
fn cell(u: &mut Unstructured) -> Result<CellRef> {
    Ok(CellRef { col: col(u)?, row: row(u)?, abs_col: u.ratio(1, 3)?, abs_row: u.ratio(1, 3)? })
}
fn qual(u: &mut Unstructured) -> Result<Option<Qual>> {
    if u.ratio(3, 5)? {
        return Ok(None);
    }
    let book = if u.ratio(1, 6)? { Some(pick(u, &["1", "Book1.xlsx", "My Book.xlsx"])?.to_string()) } else { None };
    let sheet2 = if book.is_none() && u.ratio(1, 15)? { Some(pick(u, SHEETS)?.to_string()) } else { None };
    Ok(Some(Qual { pick: 0, sheet: pick(u, SHEETS)?.to_string(), book, path: None, force_quote: u.ratio(1, 20)?, sheet2 }))
}
fn reference(u: &mut Unstructured) -> Result<RefNode> {
    let area = match u.int_in_range(0..=7u8)? {
        0..=3 => Area::Cell(cell(u)?),
        4 | 5 => {
            let (a, b) = (cell(u)?, cell(u)?);
            Area::Range(
                CellRef { col: a.col.min(b.col), row: a.row.min(b.row), ..a.clone() },
                CellRef { col: a.col.max(b.col), row: a.row.max(b.row), ..b.clone() },
            )
        }
        6 => {
            let (a, b) = (row(u)?, row(u)?);
            Area::Rows { r1: a.min(b), a1: u.ratio(1, 3)?, r2: a.max(b), a2: u.ratio(1, 3)? }
        }
        _ => {
            let (a, b) = (col(u)?, col(u)?);
            Area::Cols { c1: a.min(b), a1: u.ratio(1, 3)?, c2: a.max(b), a2: u.ratio(1, 3)? }
        }
    };
    Ok(RefNode { qual: qual(u)?, area, lower: u.ratio(1, 16)? })
}
fn ref_like(u: &mut Unstructured) -> Result<Expr> {
    Ok(match u.int_in_range(0..=5u8)? {
        0 => Expr::Paren(Box::new(Expr::Ref(reference(u)?))),
        1 => Expr::Name { qual: None, name: pick(u, NAMES)?.to_string() },
        _ => Expr::Ref(reference(u)?),
    })
}
fn leaf(u: &mut Unstructured) -> Result<Expr> {
    Ok(match u.int_in_range(0..=9u8)? {
        0 => Expr::Num(pick(u, NUMS)?.to_string()),
        1 => Expr::Str(pick(u, STRS)?.to_string()),
        2 => Expr::Bool(u.arbitrary()?),
        3 => Expr::Err { qual: if u.ratio(1, 4)? { qual(u)? } else { None }, text: pick(u, CLASSIC_ERRORS)?.to_string() },
        4 => Expr::Name { qual: if u.ratio(1, 5)? { qual(u)? } else { None }, name: pick(u, NAMES)?.to_string() },
        5 => Expr::Structured { table: pick(u, &["Table1", "Sales", "", "Tbl1"])?.to_string(), spec: pick(u, SPECS)?.to_string() },
        _ => Expr::Ref(reference(u)?),
    })
}
fn expr(u: &mut Unstructured, depth: u32) -> Result<Expr> {
    if depth == 0 || u.ratio(1, 4)? {
        return leaf(u);
    }
    Ok(match u.int_in_range(0..=9u8)? {
        0 | 1 => {
            let n = u.int_in_range(1..=3usize)?;
            let mut args = Vec::new();
            for _ in 0..n {
                args.push(if u.ratio(1, 12)? { Expr::Missing } else { expr(u, depth - 1)? });
            }
            Expr::Func { name: pick(u, FUNCS)?.to_string(), args }
        }
        2 | 3 => Expr::Binary { op: pick(u, OPS)?.to_string(), l: Box::new(expr(u, depth - 1)?), r: Box::new(expr(u, depth - 1)?) },
        4 => Expr::Unary { op: if u.ratio(1, 3)? { '+' } else { '-' }, e: Box::new(expr(u, depth - 1)?) },
        5 => Expr::Percent(Box::new(expr(u, depth - 1)?)),
        6 => Expr::Paren(Box::new(expr(u, depth - 1)?)),
        7 => Expr::Union(vec![ref_like(u)?, ref_like(u)?]),
        8 => Expr::Intersect(Box::new(ref_like(u)?), Box::new(ref_like(u)?)),
        _ => leaf(u)?,
    })
}

fn build(data: &[u8]) -> Result<Case> {
    let mut u = Unstructured::new(data);
    let path = match u.int_in_range(0..=2u8)? {
        0 => Path::Same,
        1 => Path::FarEdit,
        _ => Path::Translate,
    };
    let at = if path == Path::FarEdit { (u.int_in_range(1..=6)?, u.int_in_range(1..=6)?) } else { (col(&mut u)?, row(&mut u)?) };
    let to = if path == Path::Translate { (col(&mut u)?, row(&mut u)?) } else { at };
    let edit_kind = u.int_in_range(0..=3u8)?;
    let gap = u.int_in_range(0..=50u16)?;
    let n = u.int_in_range(1..=20u16)?;
    let lead = u.int_in_range(0..=1u8)?;
    let trail = u.int_in_range(0..=1u8)?;
    let e = expr(&mut u, 5)?;
    let mut blanks = Vec::new();
    while !u.is_empty() && blanks.len() < 24 {
        blanks.push(u.arbitrary::<u8>()?);
    }
    Ok(Case { path, clean: true, expr: e, blanks, lead, trail, at, to, edit_kind, gap, n })
}

fuzz_target!(|data: &[u8]| {
    if let Ok(case) = build(data) {
        if let Some((key, detail)) = fuzz_one(&case) {
            eprintln!("C09 finding {}: {}\ncase: {}", key, detail, umya_verif::props::c09::case_json(&case));
            std::process::abort();
        }
    }
});
