//! libFuzzer target for C19 (thorough tier): the input bytes are decoded into one case of
//! the `fixed`, `general` or `builtin` sub-check and judged by the same oracles as the
//! property check.  A discrepancy that is not an open known finding aborts (libFuzzer
//! saves the input; `verif helper numfmt-fuzz-case <file>` prints the decoded case as a
//! replay file).
#![no_main]
use libfuzzer_sys::fuzz_target;
use umya_verif::props::c19::fuzz_judge;

fuzz_target!(|data: &[u8]| {
    if let Some((sub, key, detail)) = fuzz_judge(data) {
        panic!("C19 {} {}: {}", sub, key, detail);
    }
});
