#!/usr/bin/env python3
# throw-away: apply one mutant at a time to /tmp/ag-faults/mut and run ./check C13 quick
import subprocess, sys, os, shutil, json, re

REPO = '/tmp/ag-faults/repo'
MUT = '/tmp/ag-faults/mut'
VERIF = '/tmp/ag-faults/verif'

X = 'src/writer/xlsx.rs'
C = 'src/writer/csv.rs'
K = 'src/helper/crypt.rs'

WRITE_BLOCK = '''    let mut writer = io::BufWriter::new(fs::File::create(&path_tmp)?);
    if let Err(v) =
        write_writer(spreadsheet, &mut writer).and_then(|_| Ok(writer.flush()?))
    {
        drop(writer);
        fs::remove_file(path_tmp)?;
        return Err(v);
    }
    drop(writer);
    fs::rename(path_tmp, path)?;'''

LIGHT_BLOCK = WRITE_BLOCK.replace('write_writer(', 'write_writer_light(')

PW_BLOCK = '''    // set password
    if let Err(v) = encrypt(&path_tmp, &buffer, password) {
        let _ = fs::remove_file(&path_tmp);
        return Err(v.into());
    }

    fs::rename(path_tmp, path)?;'''

MUTANTS = [
    ('M1 write(): write straight to the destination (no temp file, no rename)', X, WRITE_BLOCK,
     '''    let mut writer = io::BufWriter::new(fs::File::create(&path)?);
    let _ = &path_tmp;
    if let Err(v) =
        write_writer(spreadsheet, &mut writer).and_then(|_| Ok(writer.flush()?))
    {
        return Err(v);
    }
    drop(writer);''', 1),
    ('M2 write(): rename the temp file over the destination before writing into it', X, WRITE_BLOCK,
     '''    let mut writer = io::BufWriter::new(fs::File::create(&path_tmp)?);
    fs::rename(&path_tmp, &path)?;
    if let Err(v) =
        write_writer(spreadsheet, &mut writer).and_then(|_| Ok(writer.flush()?))
    {
        return Err(v);
    }
    drop(writer);''', 1),
    ('M3 write_writer(): ignore the Err of write_all', X,
     '''    let buffer = make_buffer(spreadsheet, false)?;
    writer.write_all(&buffer)?;''',
     '''    let buffer = make_buffer(spreadsheet, false)?;
    let _ = writer.write_all(&buffer);''', 1),
    ('M4 write(): drop the added flush()', X, WRITE_BLOCK,
     WRITE_BLOCK.replace('write_writer(spreadsheet, &mut writer).and_then(|_| Ok(writer.flush()?))', 'write_writer(spreadsheet, &mut writer)'), 1),
    ('M5 csv::write(): drop the added flush()', C,
     '''    if let Err(v) = write_writer(spreadsheet, &mut writer, option)
        .and_then(|_| Ok(io::Write::flush(&mut writer)?))
    {''',
     '''    if let Err(v) = write_writer(spreadsheet, &mut writer, option)
    {''', 1),
    ('M6 write(): on Err remove nothing and still rename the temp file over the destination', X, WRITE_BLOCK,
     '''    let mut writer = io::BufWriter::new(fs::File::create(&path_tmp)?);
    let r = write_writer(spreadsheet, &mut writer).and_then(|_| Ok(writer.flush()?));
    drop(writer);
    fs::rename(path_tmp, path)?;
    r?;''', 1),
    ('M7 encrypt(): drop the explicit flush of the package stream and of the compound file (rely on Drop)', K,
     '''        stream_package.write_all(&encrypted_package)?;
        stream_package.flush()?;
    }
    comp.flush()''',
     '''        stream_package.write_all(&encrypted_package)?;
    }
    Ok(())''', 1),
    ('M8 write_with_password(): ignore the error of encrypt', X, PW_BLOCK,
     '''    // set password
    let _ = encrypt(&path_tmp, &buffer, password);

    fs::rename(path_tmp, path)?;''', 2),
    ('M9 write(): ignore the error of the final rename', X, WRITE_BLOCK,
     WRITE_BLOCK.replace('fs::rename(path_tmp, path)?;', 'let _ = fs::rename(path_tmp, path);'), 1),
    ('M10 write_with_password(): encrypt straight into the destination', X, PW_BLOCK,
     '''    // set password
    let _ = &path_tmp;
    if let Err(v) = encrypt(&path, &buffer, password) {
        return Err(v.into());
    }
''', 2),
    ('M11 write_light(): on Err remove the destination instead of the temp file', X, LIGHT_BLOCK,
     LIGHT_BLOCK.replace('fs::remove_file(path_tmp)?;\n        return Err(v);', 'fs::remove_file(&path)?;\n        return Err(v);'), 1),
    ('M12 csv::write_writer(): write only whole 4 KiB blocks (tail lost, Ok returned)', C,
     '''    writer.write_all(&data_bytes)?;''',
     '''    writer.write_all(&data_bytes[..data_bytes.len() - data_bytes.len() % 4096])?;''', 1),
    ('M14 write_writer(): write() instead of write_all() (short writes not continued)', X,
     '''    let buffer = make_buffer(spreadsheet, false)?;
    writer.write_all(&buffer)?;''',
     '''    let buffer = make_buffer(spreadsheet, false)?;
    let _n = writer.write(&buffer)?;''', 1),
    ('M13 write(): skip removing the temp file on Err (NOT a violation of the statement)', X, WRITE_BLOCK,
     WRITE_BLOCK.replace('        fs::remove_file(path_tmp)?;\n', ''), 1),
]

only = sys.argv[1:]
for name, f, old, new, count in MUTANTS:
    tag = name.split()[0]
    if only and tag not in only:
        continue
    if os.path.exists(MUT):
        shutil.rmtree(MUT)
    shutil.copytree(REPO, MUT, ignore=shutil.ignore_patterns('target', '.git'))
    p = os.path.join(MUT, f)
    s = open(p).read()
    assert s.count(old) == count, (name, s.count(old))
    s = s.replace(old, new)
    open(p, 'w').write(s)
    env = dict(os.environ, VERIF_REPO_OVERRIDE=MUT, CARGO_TARGET_DIR='/tmp/ag-faults/mut-target')
    r = subprocess.run(['./check', 'C13', 'quick'], cwd=VERIF, env=env, capture_output=True, text=True)
    out = r.stdout + r.stderr
    keys = re.findall(r'violation\[C13\] sub=(\S+) key=(\S+)', out)
    summary = [l for l in out.splitlines() if l.startswith('C13 quick')]
    print('==', name)
    print('   exit', r.returncode, summary[-1] if summary else out[-400:])
    for sub, key in keys:
        print('   caught by', sub, key)
    try:
        ev = json.load(open(os.path.join(VERIF, 'evidence/C13.json')))
        lt = ev['coverage'].get('leftover_tmp', {})
        print('   leftover_tmp:', {k: v for k, v in lt.items() if '/err' in k and 'rename' not in k and 'dest-is-dir' not in k})
    except Exception as e:
        print('   no evidence', e)
    sys.stdout.flush()
    subprocess.run(['git', 'clean', '-fdq', 'replays/found'], cwd=VERIF)
