#!/bin/bash
# MANIFEST.setup_cmd: build the harness offline from files on disk.
set -e
cd "$(dirname "$(readlink -f "$0")")"
export CARGO_NET_OFFLINE=true
mkdir -p evidence replays/found logs
( cd harness && cargo build --release 2>&1 | tail -3 )
/verif/target/release/verif list
