#!/bin/bash
# MANIFEST.setup_cmd: build the harness offline from files on disk.
set -e
cd "$(dirname "$(readlink -f "$0")")"
export CARGO_NET_OFFLINE=true
mkdir -p evidence replays/found logs
( cd harness && CARGO_TARGET_DIR="${CARGO_TARGET_DIR:-$PWD/../target}" cargo build --release 2>&1 | tail -3 )
"${CARGO_TARGET_DIR:-$PWD/target}"/release/verif list
