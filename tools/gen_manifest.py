#!/usr/bin/env python3
"""Regenerates /verif/MANIFEST.json from the table below (claimed checks) and properties.jsonl."""
import json
props=[json.loads(l) for l in open('/verif/properties.jsonl')]
NOTE="trusts the harness reference models (cross-checked where DESIGN.md says so) and proptest's generators; holds only on what was generated/enumerated; known_findings.json lists recorded defects that are tolerated by exact key only"
claimed={
 "C01":("exploration","Generated workbooks (all value kinds, formulas with cached results, Unicode/XML-special/blank-edged text, boundary positions, both writers) saved and reloaded in memory; the reloaded public-getter dump must equal the generating spec cell for cell. Round-trip oracle against the spec, 24k workbooks per quick run.","4/C01","proptest round-trip (spec -> API -> save -> load -> dump == spec), shrinking to a one-cell workbook"),
 "C17":("exploration","Exhaustive enumeration of all 16384 columns, all 18278 letter names and (thorough) every row x boundary columns x lock flags against a three-line reference numeral; generated range/address strings over the legal sheet-name alphabet with round-trip oracles. Pure functions, so enumeration + generation is the right level.","4/C17","exhaustive enumeration + proptest round-trip against a reference numeral/address parser"),
 "C18":("exploration","Exhaustive over every day 1900-01-01..9999-12-31 x 6 times and every second of representative days against an independent days-from-civil reference (cross-checked with chrono); generated date-format display cases.","4/C18","exhaustive enumeration vs reference calendar; proptest for formatted display"),
}
import os,sys
extra_path='/verif/tools/manifest_claims.json'
if os.path.exists(extra_path):
    for k,v in json.load(open(extra_path)).items():
        claimed[k]=tuple(v)
hooks=json.load(open('/verif/tools/manifest_hooks.json')) if os.path.exists('/verif/tools/manifest_hooks.json') else []
checks=[]
for pid in sorted(claimed):
    cat,text,ref,tech=claimed[pid][:4]
    checks.append({"property_id":pid,"quick_cmd":f"./check {pid} quick","thorough_cmd":f"./check {pid} thorough","evidence_file":f"/verif/evidence/{pid}.json","replay_cmd_template":f"./check {pid} --replay {{path}}","engine":"umya-verif","level_claimed":{"category":cat,"text":text,"design_ref":ref},"level_note":NOTE,"technique":tech})
na=[{"property_id":p["id"],"reason":"check not integrated yet (work in progress; design in DESIGN.md section 4) — property-based testing applies, nothing is given up"} for p in props if p["id"] not in claimed]
m={"version":1,"setup_cmd":"./setup.sh","hooks":{"guard":"umya_verif","enable":"RUSTFLAGS=--cfg umya_verif (set in /verif/harness/.cargo/config.toml; the harness builds /repo as a path dependency with it)","baseline_off_cmd":"cd /repo && cargo test --workspace --no-fail-fast --offline","source_commits":hooks,"add_only":True},
 "engines":[{"name":"umya-verif","path":"/verif/harness","serves_properties":sorted(claimed),"kind_free_text":"proptest 1.11 TestRunner driven from a binary (16 seeded shards, shrinking, replay files, known-findings protocol) plus exhaustive enumerations and fault sweeps"}],
 "checks":checks,"not_applicable":na,"notes":"see DESIGN.md; known_findings.json lists open and fixed findings; replays/{known,fixed} are witness inputs replayed on every run"}
json.dump(m,open('/verif/MANIFEST.json','w'),indent=1)
print("claimed:",sorted(claimed))
