#!/bin/bash
# tools/run_all.sh [seed] [tier]  — run every registered check, print one line each
cd /verif
SEED="${1:-0}"; TIER="${2:-quick}"
for id in $(python3 -c "import json;print(' '.join(c['property_id'] for c in json.load(open('MANIFEST.json'))['checks']))"); do
  out=$(VERIF_SEED=$SEED ./check $id $TIER 2>/dev/null); rc=$?
  echo "rc=$rc $(echo "$out" | grep -E "^$id " | tail -1) known=$(echo "$out" | grep -c '^KNOWN-FINDING') viol=$(echo "$out" | grep -c '^VIOLATION')"
done
python3-vt - <<'PY'
import json,jsonschema,glob
s=json.load(open('/root/.vp/EVIDENCE.schema.json'))
m=json.load(open('/verif/MANIFEST.json'))
for c in m['checks']:
    try:
        e=json.load(open(c['evidence_file'])); jsonschema.validate(e,s)
        assert e['level']==c['level_claimed']['category'], (e['level'], c['level_claimed']['category'])
    except Exception as ex: print('EVIDENCE-INVALID',c['property_id'],str(ex)[:200])
print('evidence validated')
PY
