#!/bin/bash
# tools/mut_trial.sh <patch.diff> <ID> [<ID>...]   — apply a patch to a scratch copy of /repo and
# run the quick checks against it (sensitivity trials; never touches /repo).
# env: TIER=quick|thorough (default quick), SCR=/tmp/scr (scratch root), KEEP=1 keeps the copy
set -u
PATCH="$(readlink -f "$1")"; shift
SCR="${SCR:-/tmp/scr}"; TIER="${TIER:-quick}"
N="mut-$$"
mkdir -p "$SCR"
rsync -a --delete --exclude target --exclude .git /repo/ "$SCR/$N/"
( cd "$SCR/$N" && git init -q . 2>/dev/null; patch -p1 --quiet < "$PATCH" ) || { echo "PATCH-FAILED $PATCH"; rm -rf "$SCR/$N"; exit 3; }
rc_all=0
for ID in "$@"; do
  out=$(cd /verif && VERIF_REPO_OVERRIDE="$SCR/$N" CARGO_TARGET_DIR="${MUT_TARGET:-$SCR/tgt}" VERIF_ROOT_EVIDENCE_SKIP=1 ./check "$ID" "$TIER" 2>&1)
  rc=$?
  echo "$out" | grep -E "^(violation|VIOLATION|HARNESS-ERROR|INCONCLUSIVE|C[0-9]+ )" | head -8
  echo "RESULT $ID rc=$rc patch=$(basename "$PATCH")"
  [ $rc -ne 0 ] && rc_all=$rc
done
[ -z "${KEEP:-}" ] && rm -rf "$SCR/$N"
# the trial run rewrote evidence and may have written replays/found: restore them
( cd /verif && git checkout -- evidence 2>/dev/null; rm -f replays/found/* )
exit $rc_all
