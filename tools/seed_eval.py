#!/usr/bin/env python3
"""seed_eval.py <ID> <name> <patch.diff> <demo.rs> <meta.json> [--all]

Confirms a seeded change independently and records it under /verif/seeded/<name>/:
  1. the demonstration passes on an unmodified copy of /repo,
  2. with the patch applied the repository's own tests still pass (17 unit, 78 integration
     with the two baseline *large_string failures) and the demonstration fails,
  3. the quick check of property <ID> (and, with --all or when <ID> misses it, every other
     registered check) is run against the patched copy through VERIF_REPO_OVERRIDE.
Nothing is changed in /repo; scratch copies live under /tmp/scr and are removed.
"""
import json, os, re, shutil, subprocess, sys, time

def sh(cmd, cwd=None, env=None, timeout=3600):
    e = dict(os.environ)
    e.update(env or {})
    p = subprocess.run(cmd, shell=True, cwd=cwd, env=e, stdout=subprocess.PIPE, stderr=subprocess.STDOUT, text=True, timeout=timeout)
    return p.returncode, p.stdout

def main():
    pid, name, patch, demo, meta = sys.argv[1:6]
    run_all = '--all' in sys.argv
    scr = f'/tmp/scr/seed-{name}'
    tgt = os.environ.get('SEED_TARGET', '/tmp/scr/seedtgt')
    shutil.rmtree(scr, ignore_errors=True)
    os.makedirs('/tmp/scr', exist_ok=True)
    sh(f'rsync -a --exclude target --exclude .git /repo/ {scr}/')
    # cargo's freshness test is mtime based: a copy with old mtimes over an earlier (patched) build would be taken as fresh
    sh(f'find {scr}/src {scr}/tests -name "*.rs" -exec touch {{}} +')
    demo_name = 'seed_demo_' + re.sub(r'[^A-Za-z0-9_]', '_', name)
    shutil.copy(demo, f'{scr}/tests/{demo_name}.rs')
    env = {'CARGO_TARGET_DIR': tgt, 'CARGO_NET_OFFLINE': 'true'}
    res = {'property': pid, 'name': name, 'at': time.strftime('%Y-%m-%dT%H:%M:%SZ', time.gmtime()),
           'repo_head': sh('git -C /repo log -1 --format=%h')[1].strip()}
    rc, out = sh(f'cargo test --offline --test {demo_name} 2>&1 | tail -30', cwd=scr, env=env)
    res['demo_passes_without_change'] = ('test result: ok' in out)
    res['demo_without_change_tail'] = out[-600:]
    rc, out = sh(f'patch -p1 --quiet < {os.path.abspath(patch)}', cwd=scr)
    res['patch_applies'] = (rc == 0)
    if rc != 0:
        res['patch_error'] = out[-600:]
    else:
        rc, out = sh('cargo test --offline --lib 2>&1 | grep "test result"', cwd=scr, env=env)
        res['unit_tests'] = out.strip()
        rc, out = sh('cargo test --offline --test integration_test 2>&1 | grep -E "test result|FAILED"', cwd=scr, env=env)
        res['integration_tests'] = out.strip()
        failed = sorted(set(re.findall(r'test (\S+) \.\.\. FAILED', out)))
        res['tests_pass_with_change'] = ('17 passed; 0 failed' in res['unit_tests']) and failed == ['lazy_read_and_wite_large_string', 'read_large_string'] and '78 passed' in out
        rc, out = sh(f'cargo test --offline --test {demo_name} 2>&1 | tail -30', cwd=scr, env=env)
        res['demo_fails_with_change'] = ('test result: FAILED' in out) or ('panicked' in out and 'test result: ok' not in out)
        res['demo_with_change_tail'] = out[-800:]
        # drop the demo so that it is not part of what the checks build
        os.remove(f'{scr}/tests/{demo_name}.rs')
        ids = [pid]
        m = json.load(open('/verif/MANIFEST.json'))
        all_ids = [c['property_id'] for c in m['checks']]
        checks = {}
        def run_check(i):
            t0 = time.time()
            rc, out = sh(f'./check {i} quick', cwd='/verif', env={'VERIF_REPO_OVERRIDE': scr, 'CARGO_TARGET_DIR': os.environ.get('MUT_TARGET', '/tmp/scr/tgt'), 'VERIF_SEED': os.environ.get('VERIF_SEED', '0')}, timeout=7200)
            keys = re.findall(r'^violation\[\w+\] sub=(\S+) key=(\S+)', out, flags=re.M)
            checks[i] = {'rc': rc, 'violations': [f'{s}:{k}' for s, k in keys][:8], 'wall_s': round(time.time() - t0, 1)}
            return rc
        if pid in all_ids:
            rc = run_check(pid)
        else:
            rc = 0
            checks[pid] = {'rc': None, 'note': 'property not registered'}
        if run_all or rc != 1:
            for i in all_ids:
                if i != pid:
                    run_check(i)
        res['checks'] = checks
        res['caught_by'] = sorted(i for i, c in checks.items() if c.get('rc') == 1)
    shutil.rmtree(scr, ignore_errors=True)
    # restore what the trial runs rewrote
    sh('git checkout -- evidence; find replays/found -name "*.json" -delete', cwd='/verif')
    ok = res.get('demo_passes_without_change') and res.get('patch_applies') and res.get('tests_pass_with_change') and res.get('demo_fails_with_change')
    res['confirmed'] = bool(ok)
    out_dir = f'/verif/seeded/{name}'
    if ok:
        os.makedirs(out_dir, exist_ok=True)
        shutil.copy(patch, f'{out_dir}/patch.diff')
        shutil.copy(demo, f'{out_dir}/demo.rs')
        seeder = json.load(open(meta)) if os.path.exists(meta) else {}
        json.dump({'property': pid, 'breaks': seeder.get('what_it_breaks'), 'needs_to_manifest': seeder.get('needs_to_manifest'),
                   'files': seeder.get('files'), 'title': seeder.get('title'), 'seeder_meta': seeder, 'confirmation': res,
                   'what_was_run': ['demo on unmodified copy', 'cargo test --lib / --test integration_test with patch', 'demo with patch',
                                    'tools/seed_eval.py -> ./check <ID> quick with VERIF_REPO_OVERRIDE=<patched copy>']},
                  open(f'{out_dir}/meta.json', 'w'), indent=1, ensure_ascii=False)
    print(json.dumps({k: res.get(k) for k in ['name', 'confirmed', 'demo_passes_without_change', 'patch_applies', 'tests_pass_with_change', 'demo_fails_with_change', 'caught_by']}))
    if not ok:
        print(json.dumps(res, indent=1)[:3000])

main()
