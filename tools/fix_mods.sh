#!/bin/bash
# regenerate the `pub mod` lists of gen/, model/ from the files present (used when merging)
cd /verif/harness/src
{ echo "//! Shared generators (proptest strategies)."; for f in gen/*.rs; do b=$(basename $f .rs); [ "$b" = mod ] || echo "pub mod $b;"; done; } > gen/mod.rs
if [ -d model ]; then { echo "//! Reference models."; for f in model/*.rs; do b=$(basename $f .rs); [ "$b" = mod ] || echo "pub mod $b;"; done; } > model/mod.rs; fi
