#!/usr/bin/env python3
"""Regenerates /verif/seeded/README.md from seeded/*/meta.json."""
import json, glob, os
rows = []
for f in sorted(glob.glob('/verif/seeded/*/meta.json')):
    m = json.load(open(f)); c = m['confirmation']; name = os.path.basename(os.path.dirname(f))
    target = m['property']
    chk = c.get('checks', {})
    own = chk.get(target, {})
    rows.append((name, target, (m.get('title') or '')[:70], 'yes' if own.get('rc') == 1 else ('no' if own.get('rc') == 0 else str(own.get('rc'))),
                 ', '.join(c.get('caught_by', [])) or '-', '; '.join(own.get('violations', [])[:2])[:110], (m.get('needs_to_manifest') or '')[:120]))
out = ['# Seeded changes and which checks catch them', '',
       'Each directory holds `patch.diff` (the change), `demo.rs` (a test that fails with it and passes without), `meta.json`',
       '(what it breaks, what it needs to manifest, and the confirmation record written by `tools/seed_eval.py`).', '',
       '| seeded change | property | what | caught by own check (quick) | caught by | first keys | needs |', '|---|---|---|---|---|---|---|']
for r in rows:
    out.append('| ' + ' | '.join(x.replace('|', '/') for x in r) + ' |')
n = len(rows); caught = sum(1 for r in rows if r[4] != '-')
out += ['', f'{caught} of {n} confirmed seeded changes are caught by at least one quick check.']
open('/verif/seeded/README.md', 'w').write('\n'.join(out) + '\n')
print(f'{caught}/{n}')
