#!/usr/bin/env python3
"""mkmut.py <out.diff> <file-relative-to-repo> <old> <new> [<file> <old> <new> ...]
Creates a unified diff that replaces <old> by <new> (exactly one occurrence) in /repo's
current working tree, without touching /repo."""
import sys, difflib
out = sys.argv[1]
args = sys.argv[2:]
res = []
for i in range(0, len(args), 3):
    f, old, new = args[i:i+3]
    s = open('/repo/' + f).read()
    if s.count(old) != 1:
        sys.exit(f"{f}: expected exactly one occurrence of {old!r}, found {s.count(old)}")
    t = s.replace(old, new)
    res += list(difflib.unified_diff(s.splitlines(True), t.splitlines(True), 'a/' + f, 'b/' + f))
open(out, 'w').write(''.join(res))
print(out, len(res), 'lines')
