#!/usr/bin/env python3
"""Oracle self-test for harness/src/model/offcrypto.rs (C14/C15), stdlib only.

Recomputes with hashlib/hmac, from the text of the standards, what the Rust reference
printed as JSON lines (`verif helper offcrypto-vectors`):

* [MS-OFFCRYPTO] 2.3.4.11  H0 = H(salt || UTF-16LE(pw)); Hn = H(LE32(n) || Hn-1), n = 0..spin-1;
                           key = H(Hn || blockKey) cut / padded with 0x36 to the key size
* [MS-OFFCRYPTO] 2.3.4.15  segment IV = H(salt || LE32(segment)) cut to 16 bytes
* [MS-OFFCRYPTO] 2.3.4.14  HMAC
* ECMA-376-1 18.2.29 / 18.3.1.85   H0 = H(salt || UTF-16LE(pw)); Hi = H(Hi-1 || LE32(i))

usage:  offcrypto_selftest.py --stdin            (vectors on stdin; used by ./check C14|C15)
        offcrypto_selftest.py <path to verif>    (runs `<verif> helper offcrypto-vectors`)
exit 0 = all vectors agree, 1 = disagreement, 2 = usage / no vectors
"""
import base64
import hashlib
import hmac
import json
import struct
import subprocess
import sys

BK_VERIFIER_INPUT = bytes([0xFE, 0xA7, 0xD2, 0x76, 0x3B, 0x4B, 0x9E, 0x79])
BK_KEY_VALUE = bytes([0x14, 0x6E, 0x0B, 0xE7, 0xAB, 0xAC, 0xD0, 0xD6])


def fit(b, n):
    return (b + b"\x36" * n)[:n]


def agile_iterated(alg, salt, pw, spin):
    h = hashlib.new(alg, salt + pw.encode("utf-16-le")).digest()
    for i in range(spin):
        h = hashlib.new(alg, struct.pack("<I", i) + h).digest()
    return h


def ecma_hash(alg, salt, pw, spin):
    h = hashlib.new(alg, salt + pw.encode("utf-16-le")).digest()
    for i in range(spin):
        h = hashlib.new(alg, h + struct.pack("<I", i)).digest()
    return h


def check(v):
    alg, salt, pw, spin = v["alg"], bytes.fromhex(v["salt"]), v["password"], v["spin"]
    bad = []
    it = agile_iterated(alg, salt, pw, spin)
    if it.hex() != v["agile_iterated"]:
        bad.append("agile_iterated")
    key = fit(hashlib.new(alg, it + BK_KEY_VALUE).digest(), 32)
    if key.hex() != v["agile_key_value_key"]:
        bad.append("agile_key_value_key")
    k40 = fit(hashlib.sha256(agile_iterated("sha256", salt, pw, 3) + BK_VERIFIER_INPUT).digest(), 40)
    if k40.hex() != v["agile_key40_sha256_spin3"]:
        bad.append("agile_key40_sha256_spin3 (0x36 padding)")
    iv = fit(hashlib.new(alg, salt + struct.pack("<I", v["segment"])).digest(), 16)
    if iv.hex() != v["segment_iv"]:
        bad.append("segment_iv")
    if hmac.new(key, it, alg).hexdigest() != v["hmac_key_over_iterated"]:
        bad.append("hmac")
    if ecma_hash(alg, salt, pw, spin).hex() != v["ecma_protection_hash"]:
        bad.append("ecma_protection_hash")
    if base64.b64encode(salt).decode() != v["b64_salt"]:
        bad.append("base64")
    return bad


def main():
    if len(sys.argv) != 2:
        print(__doc__)
        return 2
    if sys.argv[1] == "--stdin":
        lines = sys.stdin.read().splitlines()
    else:
        lines = subprocess.run([sys.argv[1], "helper", "offcrypto-vectors"], check=True, capture_output=True, text=True).stdout.splitlines()
    vectors = [json.loads(l) for l in lines if l.strip()]
    if not vectors:
        print("no vectors")
        return 2
    failed = 0
    for v in vectors:
        bad = check(v)
        if bad:
            failed += 1
            print("MISMATCH", bad, json.dumps(v, ensure_ascii=False))
    # the two iterations must differ from each other (guards against both sides sharing one order)
    if all(v["agile_iterated"] == v["ecma_protection_hash"] for v in vectors if v["spin"] > 0):
        print("the two iterations coincide on every vector")
        failed += 1
    print("offcrypto self-test: %d vectors, %d mismatches" % (len(vectors), failed))
    return 1 if failed else 0


if __name__ == "__main__":
    sys.exit(main())
