#!/usr/bin/env python3
"""Sensitivity mutants for C12 / C16 (see notes/C12.md, notes/C16.md).

    git clone -q <library clone with the H1 hook and the shared-string fix> /tmp/x/mut
    python3 pytools/sst_mutants.py /tmp/x/mut M16-1
    VERIF_REPO_OVERRIDE=/tmp/x/mut CARGO_TARGET_DIR=/tmp/x/mut-target ./check C16 quick     # expect VIOLATION

Names: M12-1..M12-6, M16-1, M16-2, M16-3, M16-3y, M16-4, M16-6.  The directory is reset to HEAD first.
"""
import subprocess, sys

d, name = sys.argv[1], sys.argv[2]


def sh(*a):
    subprocess.check_call(a, cwd=d)


def edit(path, old, new):
    p = d + "/" + path
    s = open(p).read()
    assert s.count(old) == 1, (path, old, s.count(old))
    open(p, "w").write(s.replace(old, new))


sh("git", "reset", "-q", "--hard", "HEAD")
XLSX = "src/writer/xlsx.rs"
GET = "    let shared_string_table = spreadsheet.get_shared_string_table();\n"
EXIT = '    #[cfg(umya_verif)]\n    crate::verif_hooks::yield_point("make_buffer_exit");\n'
NEW = "    let shared_string_table = std::sync::RwLock::new(if has_raw_worksheet {"


def reverted():
    fix = subprocess.check_output(["git", "log", "--format=%H", "--grep", "^fix: each save builds its own shared string table"], cwd=d).decode().split()[0]
    sh("git", "revert", "--no-commit", fix)


if name == "M12-1":  # reuse the table across saves (= the fix reverted)
    reverted()
elif name == "M12-2":  # always seeded from the workbook's (loaded) table
    edit(XLSX, NEW, NEW.replace("if has_raw_worksheet", "if true"))
elif name == "M12-3":  # never seeded: unloaded sheets lose the table their indexes refer to
    edit(XLSX, NEW, NEW.replace("if has_raw_worksheet", "if false && has_raw_worksheet"))
elif name == "M12-4":  # seeded from the workbook's table and written back after the save (cache)
    edit(XLSX, NEW, NEW.replace("if has_raw_worksheet", "if true"))
    edit(XLSX, EXIT, "    *spreadsheet.get_shared_string_table().write().unwrap() = shared_string_table.read().unwrap().clone();\n" + EXIT)
elif name == "M12-5":  # any -> all
    edit(XLSX, "        .any(|worksheet| !worksheet.is_deserialized());", "        .all(|worksheet| !worksheet.is_deserialized());")
elif name == "M12-6":  # rich text dropped at registration
    edit("src/structs/shared_string_table.rs", "        if let Some(v) = value.get_rich_text() {\n            shared_string_item.set_rich_text(v);\n        }\n\n        let hash_code", "\n        let hash_code")
elif name == "M16-1":  # table shared again, cleared at the start of every save
    reverted()
    edit(XLSX, GET, GET + "    *shared_string_table.write().unwrap() = crate::structs::SharedStringTable::default();\n")
elif name == "M16-2":  # table shared again, restored to its state at entry when the save ends
    reverted()
    edit(XLSX, GET, GET + "    let snapshot = shared_string_table.read().unwrap().clone();\n")
    edit(XLSX, EXIT, "    *shared_string_table.write().unwrap() = snapshot;\n" + EXIT)
elif name in ("M16-3", "M16-3y"):  # lookup and append under two separate lock acquisitions
    reverted()
    edit(
        "src/structs/shared_string_table.rs",
        "    pub(crate) fn set_attributes<R: std::io::BufRead>(",
        """    pub(crate) fn lookup_m(&mut self, value: &CellValue) -> (Option<usize>, usize, u64, SharedStringItem) {
        self.regist_count += 1;
        let mut shared_string_item = SharedStringItem::default();
        if let Some(v) = value.get_text() {
            shared_string_item.set_text(v);
        }
        if let Some(v) = value.get_rich_text() {
            shared_string_item.set_rich_text(v);
        }
        let hash_code = shared_string_item.get_hash_u64();
        (self.map.get(&hash_code).copied(), self.shared_string_item.len(), hash_code, shared_string_item)
    }
    pub(crate) fn append_m(&mut self, hash_code: u64, n: usize, item: SharedStringItem) {
        self.map.insert(hash_code, n);
        self.set_shared_string_item(item);
    }

    pub(crate) fn set_attributes<R: std::io::BufRead>(""",
    )
    y = '#[cfg(umya_verif)]\n                            crate::verif_hooks::yield_point_before_lock("cell_register", shared_string_table, true);\n' if name == "M16-3y" else ""
    edit(
        "src/structs/cell.rs",
        """                    let val_index = shared_string_table
                        .write()
                        .unwrap()
                        .set_cell(self.get_cell_value());
""",
        """                    let (hit, n, hash_code, item) = shared_string_table.write().unwrap().lookup_m(self.get_cell_value());
                    let val_index = match hit {
                        Some(v) => v,
                        None => {
                            %sshared_string_table.write().unwrap().append_m(hash_code, n, item);
                            n
                        }
                    };
"""
        % y,
    )
elif name == "M16-4":  # table shared again, the dump drains it
    reverted()
    edit("src/writer/xlsx/shared_strings.rs", "    shared_string_table.write().unwrap().write_to(&mut writer);\n", "    std::mem::take(&mut *shared_string_table.write().unwrap()).write_to(&mut writer);\n")
elif name == "M16-6":  # the per-save table lives in a process-global static
    edit(XLSX, NEW, "    let init_m = (if has_raw_worksheet {")
    edit(
        XLSX,
        "        crate::structs::SharedStringTable::default()\n    });\n",
        """        crate::structs::SharedStringTable::default()
    });
    lazy_static! {
        static ref SAVE_TABLE_M: std::sync::RwLock<crate::structs::SharedStringTable> = std::sync::RwLock::new(Default::default());
    }
    *SAVE_TABLE_M.write().unwrap() = init_m;
    let shared_string_table: &std::sync::RwLock<crate::structs::SharedStringTable> = &*SAVE_TABLE_M;
""",
    )
else:
    sys.exit("unknown mutant " + name)
print("applied", name)
