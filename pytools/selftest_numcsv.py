#!/usr/bin/env python3
"""Cross-check of the Rust reference models of C19/C20 against the Python standard library.

    python3 pytools/selftest_numcsv.py [--bin <path to the verif binary>] [dec] [csv] [enc]

The harness binary (`verif helper numcsv-selftest`) prints what `model::decimal` and
`model::csv` compute for a fixed set of inputs; every line is recomputed here with
`decimal` (ROUND_HALF_UP on Decimal(repr(x))), `csv.reader` and `codecs`.
Exit 0 = all lines agree, 2 = disagreement or the binary could not be run (broken harness,
never a VIOLATION).  Default binary: <verif root>/target/release/verif (built by ./check).
"""
import csv
import io
import json
import os
import struct
import subprocess
import sys
from decimal import Decimal, ROUND_HALF_UP, getcontext

getcontext().prec = 800
TIES = [0]


def check_dec(o):
    x = struct.unpack("<d", struct.pack("<Q", int(o["bits"])))[0]
    d = Decimal(repr(x))
    # the digits of the shortest representation, positional
    plain = o["plain"]
    if "e" in plain.lower():
        return "plain %r has an exponent" % plain
    if Decimal(plain) != d:
        # A 17-digit shortest representation is not unique when the exact binary value lies
        # half-way between two 17-digit decimals (Python picks the even digit, Rust the
        # upper one; e.g. -1632323884762758.25 -> ...58.2 / ...58.3).  Both parse back to x.
        # Accept that case only: same number of significant digits, round-trips, > 15 digits.
        nd = len(d.normalize().as_tuple().digits)
        npl = len(Decimal(plain).normalize().as_tuple().digits)
        if not (float(plain) == x and nd == npl and nd > 15):
            return "plain %r is not repr %r" % (plain, repr(x))
        TIES[0] += 1
        d = Decimal(plain)
    if plain.startswith("-") != (struct.pack(">d", x)[0] >= 0x80):
        return "sign of plain %r" % plain
    n = d * 100 if o["percent"] else d
    k = o["decimals"]
    q = n.quantize(Decimal(1).scaleb(-k), rounding=ROUND_HALF_UP)
    s = format(q, (",." if o["thousands"] else ".") + str(k) + "f")
    if o["percent"]:
        s += "%"
    if s != o["out"]:
        return "render %r: python %r rust %r" % (repr(x), s, o["out"])
    # classification helpers used for strata
    frac = -n.normalize().as_tuple().exponent if n != 0 else 0
    frac = max(frac, 0)
    if frac != o["frac_len"]:
        return "frac_len of %r: python %d rust %d" % (n, frac, o["frac_len"])
    half = (abs(n) - abs(n).quantize(Decimal(1).scaleb(-k), rounding="ROUND_DOWN")) == Decimal(5).scaleb(-k - 1)
    if half != o["exact_half"]:
        return "exact_half of %r at %d: python %s rust %s" % (n, k, half, o["exact_half"])
    return None


def check_csv(o):
    q = o["quote"]
    f = io.StringIO(o["text"], newline="")
    if q is None:
        rd = csv.reader(f, delimiter=",", quoting=csv.QUOTE_NONE, quotechar=None, strict=False)
    else:
        rd = csv.reader(f, delimiter=",", quotechar=q, doublequote=True, quoting=csv.QUOTE_MINIMAL, strict=False)
    rows = [r if r else [""] for r in rd]
    if rows != o["records"]:
        return "csv %r quote %r: python %r rust %r" % (o["text"], q, rows, o["records"])
    return None


def check_enc(o):
    ch = o["ch"]
    try:
        b = ch.encode(o["py"])
    except UnicodeEncodeError as e:
        return "%s cannot encode %r (%s)" % (o["py"], ch, e)
    if b.hex() != o["hex"]:
        return "%s encodes %r as %s, harness/encoding_rs as %s" % (o["py"], ch, b.hex(), o["hex"])
    if bytes.fromhex(o["hex"]).decode(o["py"]) != ch:
        return "%s does not decode %s back to %r" % (o["py"], o["hex"], ch)
    return None


def main():
    args = sys.argv[1:]
    root = os.path.dirname(os.path.dirname(os.path.abspath(__file__)))
    binary = os.path.join(os.environ.get("CARGO_TARGET_DIR", os.path.join(root, "target")), "release", "verif")
    if "--bin" in args:
        i = args.index("--bin")
        binary = args[i + 1]
        del args[i:i + 2]
    try:
        p = subprocess.run([binary, "helper", "numcsv-selftest"] + args, capture_output=True, timeout=600)
    except Exception as e:  # noqa
        print("HARNESS-ERROR: cannot run %s: %s" % (binary, e))
        return 2
    if p.returncode != 0:
        print("HARNESS-ERROR: helper exited %d: %s" % (p.returncode, p.stderr.decode("utf-8", "replace")[-500:]))
        return 2
    counts = {"dec": 0, "csv": 0, "enc": 0}
    fn = {"dec": check_dec, "csv": check_csv, "enc": check_enc}
    for line in p.stdout.decode("utf-8").splitlines():
        o = json.loads(line)
        err = fn[o["t"]](o)
        if err:
            print("HARNESS-ERROR: oracle self-test disagreement: " + err)
            return 2
        counts[o["t"]] += 1
    if sum(counts.values()) == 0:
        print("HARNESS-ERROR: the helper printed nothing")
        return 2
    print("oracle self-test ok: %d decimal renderings (%d with a non-unique 17-digit shortest form), %d csv texts, %d encoded characters agree with Python decimal/csv/codecs"
          % (counts["dec"], TIES[0], counts["csv"], counts["enc"]))
    return 0


if __name__ == "__main__":
    sys.exit(main())
