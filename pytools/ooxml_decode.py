#!/usr/bin/env python3
"""Stand-alone OOXML (xlsx/xlsm) package validator and decoder.  Python stdlib only.

It is deliberately independent of the library under test: a different zip implementation
(zipfile), a different XML parser (expat via ElementTree, which enforces XML 1.0
well-formedness and character legality and unescapes text and attribute values itself), and
its own implementation of the ECMA-376 decoding rules (cell typing, shared strings,
_xHHHH_ escapes, shared-formula expansion, style resolution through cellXfs).

API
    validate(data: bytes) -> list of {"rule": <stable short name>, "part": str, "detail": str}
    decode(data: bytes, with_strings=False) -> dict (canonical JSON, see notes/decoder.md)
    all_strings(data: bytes) -> list of str (every text node / attribute value of every XML part)

CLI
    ooxml_decode.py validate|decode|both|strings FILE       prints JSON
    ooxml_decode.py --worker                                JSON lines on stdin/stdout:
        {"op":"validate"|"decode"|"both"|"strings"|"ping", "path":FILE | "b64":BASE64, "with_strings":bool}
        -> {"ok":true, "violations":[...], "decoded":{...}|null, "decode_error":str|null}
        -> {"ok":false, "error":str}            (request not understood / file unreadable)
      stateless per request.
"""
import base64
import io
import json
import posixpath
import re
import struct
import sys
import urllib.parse
import zipfile
import zlib
import xml.etree.ElementTree as ET

MAX_COL = 16384
MAX_ROW = 1048576

NS_MAIN = (
    "http://schemas.openxmlformats.org/spreadsheetml/2006/main",
    "http://purl.oclc.org/ooxml/spreadsheetml/main",
)
NS_DOCREL = (
    "http://schemas.openxmlformats.org/officeDocument/2006/relationships",
    "http://purl.oclc.org/ooxml/officeDocument/relationships",
)
NS_PKGREL = "http://schemas.openxmlformats.org/package/2006/relationships"
NS_CT = "http://schemas.openxmlformats.org/package/2006/content-types"
NS_MC = "http://schemas.openxmlformats.org/markup-compatibility/2006"
NS_XML = "http://www.w3.org/XML/1998/namespace"

REL_OFFICE_DOC = ("/officeDocument",)

# CT_Worksheet child sequence (ECMA-376 part 1, 18.3.1.99; transitional adds the two
# legacyDrawing elements after drawing).
WORKSHEET_ORDER = [
    "sheetPr", "dimension", "sheetViews", "sheetFormatPr", "cols", "sheetData", "sheetCalcPr",
    "sheetProtection", "protectedRanges", "scenarios", "autoFilter", "sortState", "dataConsolidate",
    "customSheetViews", "mergeCells", "phoneticPr", "conditionalFormatting", "dataValidations",
    "hyperlinks", "printOptions", "pageMargins", "pageSetup", "headerFooter", "rowBreaks", "colBreaks",
    "customProperties", "cellWatches", "ignoredErrors", "smartTags", "drawing", "legacyDrawing",
    "legacyDrawingHF", "drawingHF", "picture", "oleObjects", "controls", "webPublishItems", "tableParts",
    "extLst",
]
WORKSHEET_RANK = {n: i for i, n in enumerate(WORKSHEET_ORDER)}
WORKSHEET_REPEATABLE = {"cols", "conditionalFormatting"}

# ECMA-376 part 1, 18.8.30: the implied (en-US) built-in number formats.
BUILTIN_NUMFMT = {
    0: "General", 1: "0", 2: "0.00", 3: "#,##0", 4: "#,##0.00", 9: "0%", 10: "0.00%", 11: "0.00E+00",
    12: "# ?/?", 13: "# ??/??", 14: "mm-dd-yy", 15: "d-mmm-yy", 16: "d-mmm", 17: "mmm-yy",
    18: "h:mm AM/PM", 19: "h:mm:ss AM/PM", 20: "h:mm", 21: "h:mm:ss", 22: "m/d/yy h:mm",
    37: "#,##0 ;(#,##0)", 38: "#,##0 ;[Red](#,##0)", 39: "#,##0.00;(#,##0.00)", 40: "#,##0.00;[Red](#,##0.00)",
    45: "mm:ss", 46: "[h]:mm:ss", 47: "mmss.0", 48: "##0.0E+0", 49: "@",
}


def local(tag):
    return tag.rsplit("}", 1)[-1] if isinstance(tag, str) else ""


def nsof(tag):
    if isinstance(tag, str) and tag.startswith("{"):
        return tag[1:].split("}", 1)[0]
    return ""


def kids(el, name=None):
    """children by local name (any namespace of the SpreadsheetML family)"""
    if name is None:
        return [c for c in el if isinstance(c.tag, str)]
    return [c for c in el if isinstance(c.tag, str) and local(c.tag) == name]


def kid(el, name):
    for c in el:
        if isinstance(c.tag, str) and local(c.tag) == name:
            return c
    return None


def rattr(el, name="id"):
    """attribute in the officeDocument relationships namespace"""
    for ns in NS_DOCREL:
        v = el.get("{%s}%s" % (ns, name))
        if v is not None:
            return v
    return None


def xbool(v, default=False):
    if v is None:
        return default
    return v.strip() in ("1", "true", "on")


def xint(v, default=None):
    try:
        return int(v.strip())
    except Exception:
        return default


# ---------------------------------------------------------------------------------------
# coordinates

_COL_RE = re.compile(r"^\$?([A-Za-z]{1,3})\$?([0-9]+)$")


def col_to_num(letters):
    n = 0
    for ch in letters.upper():
        n = n * 26 + (ord(ch) - 64)
    return n


def num_to_col(n):
    s = ""
    while n > 0:
        n, r = divmod(n - 1, 26)
        s = chr(65 + r) + s
    return s


def parse_ref(ref):
    """'B12' -> (col, row) or None"""
    m = _COL_RE.match(ref or "")
    if not m:
        return None
    return col_to_num(m.group(1)), int(m.group(2))


def parse_range(rng):
    """'A1:B2' or 'A1' -> (c1, r1, c2, r2) or None"""
    parts = (rng or "").split(":")
    if len(parts) == 1:
        a = parse_ref(parts[0])
        return (a[0], a[1], a[0], a[1]) if a else None
    if len(parts) == 2:
        a, b = parse_ref(parts[0]), parse_ref(parts[1])
        if a and b:
            return (a[0], a[1], b[0], b[1])
    return None


# ---------------------------------------------------------------------------------------
# ST_Xstring escapes (ECMA-376 part 1, 22.9.2.19): _xHHHH_ ; _x005F_ escapes an underscore

_XESC = re.compile(r"_x([0-9A-Fa-f]{4})_")


def xstring_decode(s):
    """_xHHHH_ -> the character; "_x005F_" is how a literal underscore in front of something
    that looks like an escape is written, and decodes to "_" by the same rule."""
    if not s or "_x" not in s:
        return s
    return _XESC.sub(lambda m: chr(int(m.group(1), 16)), s)


# ---------------------------------------------------------------------------------------
# formula reference translation for shared formulas (ECMA-376 part 1, 18.3.1.40)

_CELL_TOKEN = re.compile(r"(\$?)([A-Za-z]{1,3})(\$?)([0-9]{1,7})")
_COLS_TOKEN = re.compile(r"(\$?)([A-Za-z]{1,3}):(\$?)([A-Za-z]{1,3})")
_ROWS_TOKEN = re.compile(r"(\$?)([0-9]{1,7}):(\$?)([0-9]{1,7})")
_IDENT_CH = re.compile(r"[A-Za-z0-9_.\\?\u0080-￿]")


def _is_ident(ch):
    return bool(ch) and (_IDENT_CH.match(ch) is not None)


def translate_formula(text, dcol, drow):
    """Move every relative part of every A1-style reference in `text` by (dcol, drow).
    Returns (new_text, uncertain) - uncertain is True when a shifted reference leaves the
    grid (Excel wraps around, other readers produce #REF!) or the text has constructs this
    translator does not interpret (structured references are copied unchanged, as in Excel)."""
    out = []
    i = 0
    n = len(text)
    uncertain = False

    def shift_col(abs_, letters):
        nonlocal uncertain
        c = col_to_num(letters)
        if not abs_:
            c += dcol
            if c < 1 or c > MAX_COL:
                uncertain = True
                c = (c - 1) % MAX_COL + 1
        return ("$" if abs_ else "") + num_to_col(c)

    def shift_row(abs_, digits):
        nonlocal uncertain
        r = int(digits)
        if not abs_:
            r += drow
            if r < 1 or r > MAX_ROW:
                uncertain = True
                r = (r - 1) % MAX_ROW + 1
        return ("$" if abs_ else "") + str(r)

    while i < n:
        ch = text[i]
        if ch == '"':
            # string literal, "" is an embedded quote
            j = i + 1
            while j < n:
                if text[j] == '"':
                    if j + 1 < n and text[j + 1] == '"':
                        j += 2
                        continue
                    break
                j += 1
            out.append(text[i:j + 1])
            i = j + 1
            continue
        if ch == "'":
            # quoted sheet name (or path), '' is an embedded apostrophe
            j = i + 1
            while j < n:
                if text[j] == "'":
                    if j + 1 < n and text[j + 1] == "'":
                        j += 2
                        continue
                    break
                j += 1
            out.append(text[i:j + 1])
            i = j + 1
            continue
        if ch == "[":
            # structured reference / external workbook index: copied unchanged (nested)
            depth = 0
            j = i
            while j < n:
                if text[j] == "[":
                    depth += 1
                elif text[j] == "]":
                    depth -= 1
                    if depth == 0:
                        break
                elif text[j] == "'" and j + 1 < n:
                    j += 1  # escaped char inside a structured reference
                j += 1
            out.append(text[i:j + 1])
            i = j + 1
            continue
        prev = text[i - 1] if i > 0 else ""
        at_boundary = not (_is_ident(prev) or prev == "$")
        if at_boundary and (ch == "$" or ch.isalnum()):
            m = _CELL_TOKEN.match(text, i)
            if m:
                nxt = text[m.end():m.end() + 1]
                col = col_to_num(m.group(2))
                row = int(m.group(4))
                if not (_is_ident(nxt) or nxt == "(" or nxt == "!" or nxt == "$") and 1 <= col <= MAX_COL and 1 <= row <= MAX_ROW \
                        and not m.group(4).startswith("0"):
                    out.append(shift_col(bool(m.group(1)), m.group(2)) + shift_row(bool(m.group(3)), m.group(4)))
                    i = m.end()
                    continue
            m = _COLS_TOKEN.match(text, i)
            if m:
                nxt = text[m.end():m.end() + 1]
                c1, c2 = col_to_num(m.group(2)), col_to_num(m.group(4))
                if not (_is_ident(nxt) or nxt == "(" or nxt == "!" or nxt == "$") and c1 <= MAX_COL and c2 <= MAX_COL:
                    out.append(shift_col(bool(m.group(1)), m.group(2)) + ":" + shift_col(bool(m.group(3)), m.group(4)))
                    i = m.end()
                    continue
            m = _ROWS_TOKEN.match(text, i)
            if m and (ch == "$" or ch.isdigit()):
                nxt = text[m.end():m.end() + 1]
                r1, r2 = int(m.group(2)), int(m.group(4))
                if not (_is_ident(nxt) or nxt == "(" or nxt == "!" or nxt == "$") and 1 <= r1 <= MAX_ROW and 1 <= r2 <= MAX_ROW:
                    out.append(shift_row(bool(m.group(1)), m.group(2)) + ":" + shift_row(bool(m.group(3)), m.group(4)))
                    i = m.end()
                    continue
            # an identifier / number that is not a reference: copy it whole
            j = i
            while j < n and (_is_ident(text[j]) or text[j] == "$"):
                j += 1
            if j == i:
                j = i + 1
            out.append(text[i:j])
            i = j
            continue
        out.append(ch)
        i += 1
    return "".join(out), uncertain


# ---------------------------------------------------------------------------------------
# package

class PackageError(Exception):
    pass


class Package:
    def __init__(self, data):
        self.data = data
        self.violations = []
        try:
            self.zf = zipfile.ZipFile(io.BytesIO(data))
        except Exception as e:  # BadZipFile, struct.error, ...
            raise PackageError("zip.open: %s" % e)
        self.parts = {}       # name -> bytes
        self.lower = {}       # lowercased name -> name
        seen = set()
        for info in self.zf.infolist():
            name = info.filename
            if name.endswith("/"):
                continue      # directory entry written by some producers
            if name in seen:
                self.violations.append(("zip.duplicate-entry", name, "entry occurs twice"))
                continue
            seen.add(name)
            try:
                content = self.zf.read(info)
            except zipfile.BadZipFile as e:
                self.violations.append(("zip.crc", name, str(e)))
                continue
            except (zlib.error, EOFError, OSError, NotImplementedError, RuntimeError) as e:
                self.violations.append(("zip.read", name, "%s: %s" % (type(e).__name__, e)))
                continue
            self.parts[name] = content
            self.lower[name.lower()] = name
        self._xml = {}

    def find(self, name):
        """OPC part names are compared case-insensitively."""
        if name is None:
            return None
        name = name.lstrip("/")
        if name in self.parts:
            return name
        hit = self.lower.get(name.lower())
        if hit is not None:
            return hit
        un = urllib.parse.unquote(name)
        if un in self.parts:
            return un
        return self.lower.get(un.lower())

    def xml(self, name):
        """parsed root of a part or None (not present / not well-formed)"""
        if name in self._xml:
            return self._xml[name]
        root = None
        data = self.parts.get(name)
        if data is not None:
            try:
                root = ET.fromstring(data)
            except ET.ParseError:
                root = None
            except Exception:
                root = None
        self._xml[name] = root
        return root

    # --- relationships ---------------------------------------------------------------
    @staticmethod
    def rels_name_for(part):
        d, b = posixpath.split(part)
        return posixpath.join(d, "_rels", b + ".rels") if d else "_rels/" + b + ".rels"

    @staticmethod
    def source_of_rels(rels_name):
        d, b = posixpath.split(rels_name)
        if posixpath.basename(d) != "_rels" or not b.endswith(".rels"):
            return None
        return posixpath.join(posixpath.dirname(d), b[:-5])

    def rels(self, part):
        """list of relationships of `part` ('' = package root): dicts id,type,target,external,resolved"""
        rn = self.find(self.rels_name_for(part) if part else "_rels/.rels")
        out = []
        if rn is None:
            return out
        root = self.xml(rn)
        if root is None:
            return out
        base = posixpath.dirname(part)
        for r in root:
            if local(r.tag) != "Relationship":
                continue
            target = r.get("Target") or ""
            external = (r.get("TargetMode") or "").strip().lower() == "external"
            resolved = None
            if not external:
                t = target.split("#", 1)[0]
                if t.startswith("/"):
                    resolved = posixpath.normpath(t.lstrip("/"))
                else:
                    resolved = posixpath.normpath(posixpath.join(base, t))
                if resolved.startswith("../"):
                    resolved = None
            out.append({"id": r.get("Id"), "type": r.get("Type") or "", "target": target,
                        "external": external, "resolved": resolved})
        return out


_SML = "application/vnd.openxmlformats-officedocument.spreadsheetml."
REL_CONTENT_TYPES = {
    "/officeDocument": {_SML + "sheet.main+xml", _SML + "template.main+xml",
                        "application/vnd.ms-excel.sheet.macroenabled.main+xml",
                        "application/vnd.ms-excel.template.macroenabled.main+xml",
                        "application/vnd.ms-excel.addin.macroenabled.main+xml"},
    "/worksheet": {_SML + "worksheet+xml"},
    "/chartsheet": {_SML + "chartsheet+xml"},
    "/styles": {_SML + "styles+xml"},
    "/sharedStrings": {_SML + "sharedstrings+xml"},
    "/comments": {_SML + "comments+xml"},
    "/table": {_SML + "table+xml"},
    "/theme": {"application/vnd.openxmlformats-officedocument.theme+xml"},
    "/drawing": {"application/vnd.openxmlformats-officedocument.drawing+xml"},
    "/chart": {"application/vnd.openxmlformats-officedocument.drawingml.chart+xml"},
    "/vmlDrawing": {"application/vnd.openxmlformats-officedocument.vmldrawing"},
    "/vbaProject": {"application/vnd.ms-office.vbaproject"},
}
REL_CONTENT_TYPES = {k: {x.lower() for x in v} for k, v in REL_CONTENT_TYPES.items()}


def _is_xml_part(name, ctype):
    low = name.lower()
    if ctype:
        c = ctype.lower()
        if c.endswith("+xml") or c.endswith("/xml"):
            return True
    # .vml parts are not checked: Excel itself writes legacy VML with HTML fragments such as
    # <br> inside text boxes (calibration: issue_189.xlsx)
    return low.endswith(".xml") or low.endswith(".rels")


class ContentTypes:
    def __init__(self, pkg):
        self.defaults = {}
        self.overrides = {}
        self.present = False
        name = pkg.find("[Content_Types].xml")
        self.name = name
        if name is None:
            return
        self.present = True
        root = pkg.xml(name)
        if root is None:
            return
        for c in root:
            ln = local(c.tag)
            if ln == "Default":
                self.defaults[(c.get("Extension") or "").lower()] = c.get("ContentType") or ""
            elif ln == "Override":
                self.overrides[(c.get("PartName") or "")] = c.get("ContentType") or ""

    def type_of(self, part):
        for pn, ct in self.overrides.items():
            if pn.lstrip("/").lower() == part.lower():
                return ct
        ext = part.rsplit(".", 1)[-1].lower() if "." in posixpath.basename(part) else ""
        return self.defaults.get(ext)


# ---------------------------------------------------------------------------------------
# workbook level helpers shared by validate and decode

def find_workbook_part(pkg):
    for r in pkg.rels(""):
        if r["type"].endswith("/officeDocument") and not r["external"]:
            hit = pkg.find(r["resolved"])
            if hit:
                return hit
    return pkg.find("xl/workbook.xml")


def sheet_kind_of_rel(rtype):
    for k in ("worksheet", "chartsheet", "dialogsheet", "macrosheet"):
        if rtype.endswith("/" + k):
            return k
    if rtype.endswith("xlMacrosheet") or rtype.endswith("xlIntlMacrosheet"):
        return "macrosheet"
    return "other"


def workbook_sheets(pkg, wb_part):
    """[(name, sheetId, state, rid, part or None, kind)]"""
    root = pkg.xml(wb_part)
    out = []
    if root is None:
        return out
    rels = {r["id"]: r for r in pkg.rels(wb_part)}
    sheets = kid(root, "sheets")
    if sheets is None:
        return out
    for s in kids(sheets, "sheet"):
        rid = rattr(s, "id")
        rel = rels.get(rid)
        part = pkg.find(rel["resolved"]) if rel and rel["resolved"] else None
        out.append({
            "name": s.get("name"),
            "sheet_id": s.get("sheetId"),
            "state": s.get("state") or "visible",
            "rid": rid,
            "part": part,
            "kind": sheet_kind_of_rel(rel["type"]) if rel else "unresolved",
        })
    return out


def part_by_rel_type(pkg, source, suffix):
    for r in pkg.rels(source):
        if r["type"].endswith(suffix) and not r["external"]:
            hit = pkg.find(r["resolved"])
            if hit:
                return hit
    return None


# ---------------------------------------------------------------------------------------
# styles

def _color(el):
    if el is None:
        return None
    out = {}
    for k in ("rgb", "theme", "indexed", "auto", "tint"):
        v = el.get(k)
        if v is not None:
            out[k] = v
    return out


def _font(el):
    if el is None:
        return None

    def flag(name):
        c = kid(el, name)
        if c is None:
            return False
        return xbool(c.get("val"), True)

    def val(name):
        c = kid(el, name)
        return c.get("val") if c is not None else None

    u = kid(el, "u")
    name = val("name")
    if name is None:
        name = val("rFont")          # run properties use rFont
    return {
        "name": name, "size": val("sz"), "bold": flag("b"), "italic": flag("i"), "strike": flag("strike"),
        "underline": (u.get("val") or "single") if u is not None else None,
        "color": _color(kid(el, "color")), "vert_align": val("vertAlign"), "family": val("family"),
        "charset": val("charset"), "scheme": val("scheme"),
    }


def _fill(el):
    if el is None:
        return None
    p = kid(el, "patternFill")
    if p is not None:
        return {"kind": "pattern", "pattern": p.get("patternType"), "fg": _color(kid(p, "fgColor")), "bg": _color(kid(p, "bgColor"))}
    g = kid(el, "gradientFill")
    if g is not None:
        return {"kind": "gradient", "pattern": None, "fg": None, "bg": None}
    return {"kind": "none", "pattern": None, "fg": None, "bg": None}


def _border(el):
    if el is None:
        return None
    out = {"diagonal_up": xbool(el.get("diagonalUp")), "diagonal_down": xbool(el.get("diagonalDown"))}
    for side in ("left", "right", "top", "bottom", "diagonal", "start", "end"):
        c = kid(el, side)
        if c is None:
            out[side] = None
        else:
            out[side] = {"style": c.get("style"), "color": _color(kid(c, "color"))}
    # strict files use start/end for left/right
    if out.get("left") is None and out.get("start") is not None:
        out["left"] = out["start"]
    if out.get("right") is None and out.get("end") is not None:
        out["right"] = out["end"]
    out.pop("start", None)
    out.pop("end", None)
    return out


def _alignment(el):
    if el is None:
        return None
    return {
        "horizontal": el.get("horizontal"), "vertical": el.get("vertical"),
        "wrap_text": xbool(el.get("wrapText")) if el.get("wrapText") is not None else None,
        "text_rotation": el.get("textRotation"), "indent": el.get("indent"),
        "shrink_to_fit": xbool(el.get("shrinkToFit")) if el.get("shrinkToFit") is not None else None,
        "reading_order": el.get("readingOrder"),
    }


def _protection(el):
    if el is None:
        return None
    return {"locked": xbool(el.get("locked"), True) if el.get("locked") is not None else None,
            "hidden": xbool(el.get("hidden")) if el.get("hidden") is not None else None}


_APPLY = ("applyNumberFormat", "applyFont", "applyFill", "applyBorder", "applyAlignment", "applyProtection")


def _xf(el):
    return {
        "num_fmt_id": xint(el.get("numFmtId"), 0), "font_id": xint(el.get("fontId"), 0), "fill_id": xint(el.get("fillId"), 0),
        "border_id": xint(el.get("borderId"), 0), "xf_id": xint(el.get("xfId")),
        "has": {k: (el.get(k) is not None) for k in ("numFmtId", "fontId", "fillId", "borderId", "xfId")},
        "apply": {k: (xbool(el.get(k)) if el.get(k) is not None else None) for k in _APPLY},
        "alignment": _alignment(kid(el, "alignment")), "protection": _protection(kid(el, "protection")),
        "quote_prefix": xbool(el.get("quotePrefix")), "pivot_button": xbool(el.get("pivotButton")),
    }


class Styles:
    def __init__(self, pkg, wb_part):
        self.part = part_by_rel_type(pkg, wb_part, "/styles") if wb_part else None
        self.root = pkg.xml(self.part) if self.part else None
        self.num_fmts = {}
        self.fonts, self.fills, self.borders = [], [], []
        self.cell_style_xfs, self.cell_xfs = [], []
        self.dxfs = 0
        self.cell_styles = 0
        self.declared = {}
        if self.root is None:
            return
        r = self.root
        for tag in ("numFmts", "fonts", "fills", "borders", "cellStyleXfs", "cellXfs", "cellStyles", "dxfs"):
            c = kid(r, tag)
            if c is not None and c.get("count") is not None:
                self.declared[tag] = xint(c.get("count"))
        nf = kid(r, "numFmts")
        if nf is not None:
            for n in kids(nf, "numFmt"):
                i = xint(n.get("numFmtId"))
                if i is not None:
                    self.num_fmts[i] = n.get("formatCode") or ""
        c = kid(r, "fonts")
        self.fonts = [_font(f) for f in kids(c, "font")] if c is not None else []
        c = kid(r, "fills")
        self.fills = [_fill(f) for f in kids(c, "fill")] if c is not None else []
        c = kid(r, "borders")
        self.borders = [_border(f) for f in kids(c, "border")] if c is not None else []
        c = kid(r, "cellStyleXfs")
        self.cell_style_xfs = [_xf(x) for x in kids(c, "xf")] if c is not None else []
        c = kid(r, "cellXfs")
        self.cell_xfs = [_xf(x) for x in kids(c, "xf")] if c is not None else []
        c = kid(r, "dxfs")
        self.dxfs = len(kids(c, "dxf")) if c is not None else 0
        c = kid(r, "cellStyles")
        self.cell_styles = len(kids(c, "cellStyle")) if c is not None else 0

    def num_fmt(self, i):
        """(code or None, builtin?)"""
        if i in self.num_fmts:
            return self.num_fmts[i], False
        return BUILTIN_NUMFMT.get(i), True

    def resolved_xfs(self):
        out = []
        for x in self.cell_xfs:
            code, builtin = self.num_fmt(x["num_fmt_id"])
            sx = None
            if x["xf_id"] is not None and 0 <= x["xf_id"] < len(self.cell_style_xfs):
                sx = self.cell_style_xfs[x["xf_id"]]
            out.append({
                "num_fmt_id": x["num_fmt_id"], "num_fmt_code": code, "num_fmt_builtin": builtin,
                "font_id": x["font_id"], "fill_id": x["fill_id"], "border_id": x["border_id"], "xf_id": x["xf_id"],
                "apply": x["apply"], "style_apply": sx["apply"] if sx else None,
                "font": self.fonts[x["font_id"]] if 0 <= x["font_id"] < len(self.fonts) else None,
                "fill": self.fills[x["fill_id"]] if 0 <= x["fill_id"] < len(self.fills) else None,
                "border": self.borders[x["border_id"]] if 0 <= x["border_id"] < len(self.borders) else None,
                "alignment": x["alignment"], "style_alignment": sx["alignment"] if sx else None,
                "protection": x["protection"], "style_protection": sx["protection"] if sx else None,
                "quote_prefix": x["quote_prefix"],
            })
        return out

    def counts(self):
        return {"numFmts": len(self.num_fmts), "fonts": len(self.fonts), "fills": len(self.fills), "borders": len(self.borders),
                "cellStyleXfs": len(self.cell_style_xfs), "cellXfs": len(self.cell_xfs), "cellStyles": self.cell_styles,
                "dxfs": self.dxfs, "declared": self.declared}


# ---------------------------------------------------------------------------------------
# strings: CT_Rst (si, is, comment text)

def _t_text(t):
    """text of a <t> element and whether its edge blanks are protected by xml:space"""
    s = t.text or ""
    for c in t:           # no children allowed, but be tolerant: tail text only
        s += c.tail or ""
    preserve = t.get("{%s}space" % NS_XML) == "preserve"
    return xstring_decode(s), preserve


def rst(el):
    """CT_Rst -> {text, rich, runs:[{text,font}], phonetic, ws_ambiguous}"""
    runs = []
    text = ""
    ambiguous = False
    rich = False
    t = kid(el, "t")
    if t is not None:
        s, pres = _t_text(t)
        text += s
        if not pres and s != s.strip(" \t\r\n"):
            ambiguous = True
    for r in kids(el, "r"):
        rich = True
        rt = kid(r, "t")
        s, pres = _t_text(rt) if rt is not None else ("", True)
        if not pres and s != s.strip(" \t\r\n"):
            ambiguous = True
        runs.append({"text": s, "font": _font(kid(r, "rPr"))})
        text += s
    phon = len(kids(el, "rPh")) > 0
    return {"text": text, "rich": rich, "runs": runs, "phonetic": phon, "ws_ambiguous": ambiguous,
            "has_t": t is not None}


class SharedStrings:
    def __init__(self, pkg, wb_part):
        self.part = part_by_rel_type(pkg, wb_part, "/sharedStrings") if wb_part else None
        self.items = []
        self.count = None
        self.unique_count = None
        root = pkg.xml(self.part) if self.part else None
        if root is None:
            return
        self.count = xint(root.get("count"))
        self.unique_count = xint(root.get("uniqueCount"))
        for si in kids(root, "si"):
            self.items.append(rst(si))


# ---------------------------------------------------------------------------------------
# validation

def validate(data):
    """Return the list of rule violations of DESIGN 3.6 (each with a stable rule name)."""
    v = []

    def add(rule, part, detail):
        v.append({"rule": rule, "part": part or "", "detail": str(detail)[:300]})

    try:
        pkg = Package(data)
    except PackageError as e:
        add("zip.open", "", e)
        return v
    for rule, part, detail in pkg.violations:
        add(rule, part, detail)

    ct = ContentTypes(pkg)
    if not ct.present:
        add("ct.missing", "[Content_Types].xml", "no content types part")

    # well-formedness of every XML part (expat: XML 1.0 syntax + legal characters)
    for name in sorted(pkg.parts):
        ctype = ct.type_of(name) if ct.present else None
        if name == ct.name or _is_xml_part(name, ctype):
            try:
                ET.fromstring(pkg.parts[name])
            except ET.ParseError as e:
                add("xml.not-well-formed", name, e)
            except Exception as e:
                add("xml.not-well-formed", name, "%s: %s" % (type(e).__name__, e))

    # content types
    if ct.present:
        for name in sorted(pkg.parts):
            if name == ct.name:
                continue
            if ct.type_of(name) is None:
                add("ct.no-type", name, "neither Override nor Default for its extension")
        for pn in sorted(ct.overrides):
            if not pn.startswith("/"):
                add("ct.override-name", pn, "PartName must start with '/'")
            if pkg.find(pn) is None:
                add("ct.override-missing-part", pn, "Override for a part that is not in the package")

    # relationships
    rel_index = {}      # source part -> {id: rel}
    for name in sorted(pkg.parts):
        src = Package.source_of_rels(name)
        if src is None:
            continue
        root = pkg.xml(name)
        if root is None:
            continue
        if src != "" and pkg.find(src) is None:
            add("rel.source-missing", name, "relationships part for a part that does not exist: %s" % src)
        seen = set()
        rels = pkg.rels(src if src else "")
        # pkg.rels resolves by the source's canonical name; use the actual source name
        for r in rels:
            if r["id"] is None or r["id"] == "":
                add("rel.no-id", name, "Relationship without Id")
            elif r["id"] in seen:
                add("rel.duplicate-id", name, "Id %s occurs twice" % r["id"])
            seen.add(r["id"])
            if not r["external"]:
                if r["resolved"] is None or pkg.find(r["resolved"]) is None:
                    add("rel.target-missing", name, "Id %s Target %r does not resolve to a part" % (r["id"], r["target"]))
        rel_index[src] = {r["id"]: r for r in rels}

    # content type of the target of a relationship of a well-known type (a comments part
    # that only falls under <Default Extension="xml" ContentType="application/xml"> is not a
    # comments part for a consumer that goes by content type)
    if ct.present:
        for src, rels in sorted(rel_index.items()):
            for rid, r in sorted(rels.items(), key=lambda kv: str(kv[0])):
                if r["external"] or r["resolved"] is None:
                    continue
                tp = pkg.find(r["resolved"])
                if tp is None:
                    continue
                for suffix, allowed in REL_CONTENT_TYPES.items():
                    if r["type"].endswith(suffix):
                        got = (ct.type_of(tp) or "").lower()
                        if got not in allowed:
                            add("ct.wrong-type", tp, "target of a %s relationship has content type %r" % (suffix.lstrip("/"), ct.type_of(tp)))
                        break

    # r:id references inside parts
    expected_type = {
        "sheet": ("/worksheet", "/chartsheet", "/dialogsheet", "/macrosheet", "xlMacrosheet", "xlIntlMacrosheet"),
        "hyperlink": ("/hyperlink",),
        "drawing": ("/drawing",),
        "legacyDrawing": ("/vmlDrawing",),
        "legacyDrawingHF": ("/vmlDrawing",),
        "tablePart": ("/table",),
        "pivotCache": ("/pivotCacheDefinition",),
        "externalReference": ("/externalLink", "/externalLinkPath", "xlExternalLinkPath/xlPathMissing"),
    }
    for name in sorted(pkg.parts):
        if Package.source_of_rels(name) is not None or name == ct.name:
            continue
        ctype = ct.type_of(name) if ct.present else None
        if not _is_xml_part(name, ctype) or name.lower().endswith(".vml"):
            continue
        root = pkg.xml(name)
        if root is None:
            continue
        rels = rel_index.get(name)
        if rels is None:
            rels = {r["id"]: r for r in pkg.rels(name)}
        for el in root.iter():
            if not isinstance(el.tag, str):
                continue
            for k, val in el.attrib.items():
                if nsof(k) in NS_DOCREL:
                    if val == "":
                        continue
                    r = rels.get(val)
                    if r is None:
                        add("rel.unresolved-rid", name, "<%s %s=%r> has no relationship" % (local(el.tag), local(k), val))
                    elif local(k) == "id" and nsof(el.tag) in NS_MAIN:
                        exp = expected_type.get(local(el.tag))
                        if exp and not any(r["type"].endswith(x) for x in exp):
                            add("rel.wrong-type", name, "<%s r:id=%r> resolves to type %s" % (local(el.tag), val, r["type"]))

    wb_part = find_workbook_part(pkg)
    if wb_part is None or pkg.xml(wb_part) is None:
        add("wb.missing", "xl/workbook.xml", "no readable workbook part")
        return v
    wb = pkg.xml(wb_part)
    sheets = workbook_sheets(pkg, wb_part)
    if not sheets:
        add("wb.no-sheets", wb_part, "workbook without sheets")
    names = set()
    ids = set()
    for s in sheets:
        nm = s["name"]
        if nm is None:
            add("wb.sheet-name-illegal", wb_part, "sheet without name")
            continue
        low = nm.lower()
        if low in names:
            add("wb.sheet-name-duplicate", wb_part, "sheet name %r occurs twice (case-insensitively)" % nm)
        names.add(low)
        units = len(nm.encode("utf-16-le")) // 2
        if units < 1 or units > 31 or any(c in nm for c in "[]:*?/\\") or nm.startswith("'") or nm.endswith("'"):
            add("wb.sheet-name-illegal", wb_part, "sheet name %r" % nm)
        sid = s["sheet_id"]
        if sid in ids:
            add("wb.sheetid-duplicate", wb_part, "sheetId %s occurs twice" % sid)
        ids.add(sid)
        if xint(sid) is None or xint(sid) < 1:
            add("wb.sheetid-illegal", wb_part, "sheetId %r" % sid)
        if s["part"] is None:
            add("wb.sheet-unresolved", wb_part, "sheet %r (r:id %r) has no part" % (nm, s["rid"]))
    dn = kid(wb, "definedNames")
    if dn is not None:
        seen = set()
        for d in kids(dn, "definedName"):
            lsi = d.get("localSheetId")
            key = ((d.get("name") or "").lower(), lsi)
            if key in seen:
                add("wb.defined-name-duplicate", wb_part, "defined name %r scope %r occurs twice" % (d.get("name"), lsi))
            seen.add(key)
            if lsi is not None:
                li = xint(lsi)
                if li is None or li < 0 or li >= len(sheets):
                    add("wb.localsheetid-range", wb_part, "defined name %r localSheetId=%r with %d sheets" % (d.get("name"), lsi, len(sheets)))

    # styles
    st = Styles(pkg, wb_part)
    n_xf = len(st.cell_xfs)
    if st.root is not None:
        for kind_, arr in (("cellXfs", st.cell_xfs), ("cellStyleXfs", st.cell_style_xfs)):
            for i, x in enumerate(arr):
                if x["font_id"] >= max(len(st.fonts), 0) and x["has"]["fontId"]:
                    add("styles.font-id", st.part, "%s[%d] fontId=%d, %d fonts" % (kind_, i, x["font_id"], len(st.fonts)))
                if x["fill_id"] >= len(st.fills) and x["has"]["fillId"]:
                    add("styles.fill-id", st.part, "%s[%d] fillId=%d, %d fills" % (kind_, i, x["fill_id"], len(st.fills)))
                if x["border_id"] >= len(st.borders) and x["has"]["borderId"]:
                    add("styles.border-id", st.part, "%s[%d] borderId=%d, %d borders" % (kind_, i, x["border_id"], len(st.borders)))
                if kind_ == "cellXfs" and x["xf_id"] is not None and x["xf_id"] >= len(st.cell_style_xfs):
                    add("styles.xf-id", st.part, "cellXfs[%d] xfId=%d, %d cellStyleXfs" % (i, x["xf_id"], len(st.cell_style_xfs)))
                nf = x["num_fmt_id"]
                if nf >= 164 and nf not in st.num_fmts:
                    add("styles.numfmt-id", st.part, "%s[%d] numFmtId=%d is neither built-in nor declared" % (kind_, i, nf))
        cs = kid(st.root, "cellStyles")
        if cs is not None:
            for c in kids(cs, "cellStyle"):
                xi = xint(c.get("xfId"))
                if xi is not None and xi >= len(st.cell_style_xfs):
                    add("styles.xf-id", st.part, "cellStyle %r xfId=%d, %d cellStyleXfs" % (c.get("name"), xi, len(st.cell_style_xfs)))

    sst = SharedStrings(pkg, wb_part)
    n_si = len(sst.items)

    table_ids = {}
    table_names = {}
    for s in sheets:
        part = s["part"]
        if part is None or s["kind"] != "worksheet":
            continue
        root = pkg.xml(part)
        if root is None:
            continue
        _validate_worksheet(pkg, part, root, n_si, n_xf, st, add, have_styles=st.root is not None)
        for r in pkg.rels(part):
            if r["type"].endswith("/table") and not r["external"]:
                tp = pkg.find(r["resolved"])
                troot = pkg.xml(tp) if tp else None
                if troot is None:
                    continue
                tid = troot.get("id")
                if tid in table_ids and table_ids[tid] != tp:
                    add("table.id-duplicate", tp, "table id %s also used by %s" % (tid, table_ids[tid]))
                table_ids.setdefault(tid, tp)
                for attr in ("name", "displayName"):
                    tn = (troot.get(attr) or "").lower()
                    if not tn:
                        continue
                    key = (attr, tn)
                    if key in table_names and table_names[key] != tp:
                        add("table.name-duplicate", tp, "table %s %r also used by %s" % (attr, troot.get(attr), table_names[key]))
                    table_names.setdefault(key, tp)
                cols = kid(troot, "tableColumns")
                if cols is not None:
                    seen = set()
                    cids = set()
                    for c in kids(cols, "tableColumn"):
                        cn = (c.get("name") or "").lower()
                        if cn in seen:
                            add("table.column-name-duplicate", tp, "column name %r occurs twice" % c.get("name"))
                        seen.add(cn)
                        if c.get("id") in cids:
                            add("table.column-id-duplicate", tp, "column id %r occurs twice" % c.get("id"))
                        cids.add(c.get("id"))
                if st.root is not None:
                    for el in troot.iter():
                        if not isinstance(el.tag, str):
                            continue
                        for k, val in el.attrib.items():
                            if k.endswith("DxfId") or k == "dxfId":
                                di = xint(val)
                                if di is not None and di >= st.dxfs:
                                    add("ws.dxf-id", tp, "<%s %s=%s>, %d dxfs" % (local(el.tag), k, val, st.dxfs))
    return v


def _validate_worksheet(pkg, part, root, n_si, n_xf, st, add, have_styles):
    # child order
    last_rank = -1
    last_name = None
    for c in root:
        if not isinstance(c.tag, str):
            continue
        name = local(c.tag)
        if nsof(c.tag) == NS_MC and name == "AlternateContent":
            ch = kid(c, "Choice")
            inner = [x for x in ch if isinstance(x.tag, str)] if ch is not None else []
            if not inner:
                continue
            name = local(inner[0].tag)
        elif nsof(c.tag) not in NS_MAIN:
            continue
        rank = WORKSHEET_RANK.get(name)
        if rank is None:
            add("ws.child-unknown", part, "unknown worksheet child <%s>" % name)
            continue
        if rank < last_rank or (rank == last_rank and name not in WORKSHEET_REPEATABLE):
            add("ws.child-order", part, "<%s> after <%s>" % (name, last_name))
        if rank >= last_rank:
            last_rank, last_name = rank, name

    sd = kid(root, "sheetData")
    prev_row = 0
    if sd is not None:
        for row in kids(sd, "row"):
            r_attr = row.get("r")
            if r_attr is None:
                rnum = prev_row + 1
            else:
                rnum = xint(r_attr)
                if rnum is None:
                    add("ws.coord-range", part, "row r=%r" % r_attr)
                    continue
            if rnum < 1 or rnum > MAX_ROW:
                add("ws.coord-range", part, "row %d outside 1..%d" % (rnum, MAX_ROW))
            if rnum <= prev_row:
                add("ws.row-order", part, "row %d after row %d" % (rnum, prev_row))
            prev_row = max(prev_row, rnum)
            rs = row.get("s")
            if rs is not None and have_styles and (xint(rs) is None or xint(rs) >= n_xf):
                add("ws.style-index", part, "row %d s=%s, %d cellXfs" % (rnum, rs, n_xf))
            prev_col = 0
            for c in kids(row, "c"):
                ref = c.get("r")
                if ref is None:
                    col = prev_col + 1
                else:
                    p = parse_ref(ref)
                    if p is None or "$" in ref:
                        add("ws.coord-range", part, "cell r=%r" % ref)
                        continue
                    col, crow = p
                    if crow != rnum:
                        add("ws.cell-row-mismatch", part, "cell %s inside row %d" % (ref, rnum))
                    if crow < 1 or crow > MAX_ROW:
                        add("ws.coord-range", part, "cell %s" % ref)
                if col < 1 or col > MAX_COL:
                    add("ws.coord-range", part, "cell %s column %d outside 1..%d" % (ref, col, MAX_COL))
                if col <= prev_col:
                    add("ws.cell-order", part, "cell %s (column %d) after column %d in row %d" % (ref, col, prev_col, rnum))
                prev_col = max(prev_col, col)
                s = c.get("s")
                if s is not None and have_styles and (xint(s) is None or xint(s) < 0 or xint(s) >= n_xf):
                    add("ws.style-index", part, "cell %s s=%s, %d cellXfs" % (ref, s, n_xf))
                if c.get("t") == "s":
                    vv = kid(c, "v")
                    if vv is not None and (vv.text or "").strip() != "":
                        idx = xint(vv.text)
                        if idx is None or idx < 0 or idx >= n_si:
                            add("ws.sst-index", part, "cell %s shared string %r, %d <si>" % (ref, vv.text, n_si))
    for cols in kids(root, "cols"):
        for col in kids(cols, "col"):
            mn, mx = xint(col.get("min")), xint(col.get("max"))
            if mn is None or mx is None or mn < 1 or mx > MAX_COL or mn > mx:
                add("ws.coord-range", part, "<col min=%r max=%r>" % (col.get("min"), col.get("max")))
            s = col.get("style")
            if s is not None and have_styles and (xint(s) is None or xint(s) >= n_xf):
                add("ws.style-index", part, "<col style=%s>, %d cellXfs" % (s, n_xf))
    mc = kid(root, "mergeCells")
    if mc is not None:
        for m in kids(mc, "mergeCell"):
            rg = parse_range(m.get("ref"))
            if rg is None or not (1 <= rg[0] <= rg[2] <= MAX_COL and 1 <= rg[1] <= rg[3] <= MAX_ROW):
                add("ws.coord-range", part, "<mergeCell ref=%r>" % m.get("ref"))
    if have_styles:
        for el in root.iter():
            if isinstance(el.tag, str) and el.get("dxfId") is not None and nsof(el.tag) in NS_MAIN:
                di = xint(el.get("dxfId"))
                if di is None or di < 0 or di >= st.dxfs:
                    add("ws.dxf-id", part, "<%s dxfId=%s>, %d dxfs" % (local(el.tag), el.get("dxfId"), st.dxfs))


# ---------------------------------------------------------------------------------------
# decoding

def _bits(text):
    try:
        f = float(text.strip())
    except Exception:
        return None
    return struct.pack(">d", f).hex()


def _elem_text(el):
    if el is None:
        return None
    s = el.text or ""
    for c in el:
        s += c.tail or ""
    return s


def decode_sheet(pkg, part, sst, n_xf):
    root = pkg.xml(part)
    out = {"cells": [], "merged": [], "hyperlinks": [], "comments": [], "data_validations": [],
           "conditional_formats": [], "tables": [], "cols": [], "rows": [], "dimension": None, "children": [],
           "auto_filter": None, "decode_notes": []}
    if root is None:
        out["decode_notes"].append("sheet part not readable")
        return out
    out["children"] = [local(c.tag) for c in root if isinstance(c.tag, str)]
    d = kid(root, "dimension")
    if d is not None:
        out["dimension"] = d.get("ref")
    rels = {r["id"]: r for r in pkg.rels(part)}

    shared = {}       # si -> (col,row,text)
    sd = kid(root, "sheetData")
    prev_row = 0
    if sd is not None:
        for row in kids(sd, "row"):
            rnum = xint(row.get("r"))
            if rnum is None:
                rnum = prev_row + 1
            prev_row = rnum
            out["rows"].append({
                "r": rnum, "ht": row.get("ht"), "hidden": xbool(row.get("hidden")), "s": xint(row.get("s")),
                "custom_format": xbool(row.get("customFormat")), "custom_height": xbool(row.get("customHeight")),
                "spans": row.get("spans"), "has_r": row.get("r") is not None,
            })
            prev_col = 0
            for c in kids(row, "c"):
                ref = c.get("r")
                p = parse_ref(ref) if ref is not None else None
                if p is None:
                    col, crow = prev_col + 1, rnum
                else:
                    col, crow = p
                prev_col = col
                cell = {"ref": "%s%d" % (num_to_col(col), crow), "row": crow, "col": col, "has_r": ref is not None,
                        "t": c.get("t"), "s": xint(c.get("s"), 0), "has_s": c.get("s") is not None, "kind": "blank", "value": "", "bits": None,
                        "formula": None, "f_type": None, "f_si": None, "f_ref": None, "f_master": False,
                        "f_uncertain": False, "ws_ambiguous": False, "runs": None, "phonetic": False, "cm": c.get("cm")}
                t = c.get("t") or "n"
                v_el = kid(c, "v")
                v = _elem_text(v_el)
                if t == "s":
                    if v is not None and v.strip() != "":
                        idx = xint(v)
                        if idx is not None and 0 <= idx < len(sst.items):
                            it = sst.items[idx]
                            cell["kind"] = "rich" if it["rich"] else "text"
                            cell["value"] = it["text"]
                            cell["ws_ambiguous"] = it["ws_ambiguous"]
                            cell["phonetic"] = it["phonetic"]
                            if it["rich"]:
                                cell["runs"] = it["runs"]
                            cell["sst_index"] = idx
                        else:
                            cell["kind"] = "invalid"
                            cell["value"] = v
                elif t == "inlineStr":
                    is_el = kid(c, "is")
                    if is_el is not None:
                        it = rst(is_el)
                        cell["kind"] = "rich" if it["rich"] else "text"
                        cell["value"] = it["text"]
                        cell["ws_ambiguous"] = it["ws_ambiguous"]
                        cell["phonetic"] = it["phonetic"]
                        if it["rich"]:
                            cell["runs"] = it["runs"]
                elif t == "str":
                    if v is not None:
                        cell["kind"] = "text"
                        cell["value"] = xstring_decode(v)
                        pres = v_el.get("{%s}space" % NS_XML) == "preserve"
                        if not pres and v != v.strip(" \t\r\n"):
                            cell["ws_ambiguous"] = True
                elif t == "b":
                    if v is not None and v.strip() != "":
                        cell["kind"] = "bool"
                        cell["value"] = "TRUE" if v.strip() in ("1", "true") else "FALSE"
                elif t == "e":
                    if v is not None:
                        cell["kind"] = "error"
                        cell["value"] = v.strip()
                elif t == "d":
                    if v is not None and v.strip() != "":
                        cell["kind"] = "date-iso"
                        cell["value"] = v.strip()
                else:  # n
                    if v is not None and v.strip() != "":
                        cell["kind"] = "number"
                        cell["value"] = v.strip()
                        cell["bits"] = _bits(v)
                        if cell["bits"] is None:
                            cell["kind"] = "invalid"
                f = kid(c, "f")
                if f is not None:
                    ft = f.get("t") or "normal"
                    ftext = _elem_text(f) or ""
                    cell["f_type"] = ft
                    cell["f_ref"] = f.get("ref")
                    if ft == "shared":
                        si = xint(f.get("si"))
                        cell["f_si"] = si
                        if si is not None and si not in shared and ftext != "":
                            shared[si] = (col, crow, ftext)
                            cell["formula"] = ftext
                            cell["f_master"] = True
                        elif si in shared:
                            mc_, mr_, mt_ = shared[si]
                            if ftext != "" and False:
                                cell["formula"] = ftext
                            else:
                                txt, unc = translate_formula(mt_, col - mc_, crow - mr_)
                                cell["formula"] = txt
                                cell["f_uncertain"] = unc
                                cell["f_anchor"] = "%s%d" % (num_to_col(mc_), mr_)
                                if ftext != "":
                                    cell["f_own_text"] = ftext
                        else:
                            cell["formula"] = ftext
                            cell["f_uncertain"] = True
                    elif ft == "dataTable":
                        cell["formula"] = None
                    else:
                        cell["formula"] = ftext
                out["cells"].append(cell)

    for cols in kids(root, "cols"):
        for col in kids(cols, "col"):
            out["cols"].append({"min": xint(col.get("min")), "max": xint(col.get("max")), "width": col.get("width"),
                                "hidden": xbool(col.get("hidden")), "style": xint(col.get("style")),
                                "custom_width": xbool(col.get("customWidth")), "best_fit": xbool(col.get("bestFit"))})
    mc = kid(root, "mergeCells")
    if mc is not None:
        out["merged"] = [m.get("ref") for m in kids(mc, "mergeCell")]
    af = kid(root, "autoFilter")
    if af is not None:
        out["auto_filter"] = af.get("ref")
    hl = kid(root, "hyperlinks")
    if hl is not None:
        for h in kids(hl, "hyperlink"):
            rid = rattr(h, "id")
            rel = rels.get(rid) if rid else None
            out["hyperlinks"].append({
                "ref": h.get("ref"), "rid": rid, "target": rel["target"] if rel else None,
                "external": rel["external"] if rel else None,
                "location": h.get("location"), "tooltip": h.get("tooltip"), "display": h.get("display"),
            })
    for cf in kids(root, "conditionalFormatting"):
        rules = kids(cf, "cfRule")
        out["conditional_formats"].append({"sqref": cf.get("sqref"), "rules": len(rules),
                                           "dxf_ids": [xint(r.get("dxfId")) for r in rules],
                                           "types": [r.get("type") for r in rules]})
    dv = kid(root, "dataValidations")
    if dv is not None:
        for d_ in kids(dv, "dataValidation"):
            out["data_validations"].append({"sqref": d_.get("sqref"), "type": d_.get("type"),
                                            "formula1": _elem_text(kid(d_, "formula1")), "formula2": _elem_text(kid(d_, "formula2"))})
    # comments and tables through the sheet's relationships
    for r in pkg.rels(part):
        if r["external"]:
            continue
        tp = pkg.find(r["resolved"]) if r["resolved"] else None
        if tp is None:
            continue
        if r["type"].endswith("/comments"):
            croot = pkg.xml(tp)
            if croot is None:
                continue
            authors = []
            a = kid(croot, "authors")
            if a is not None:
                # CT_Authors/author is an ST_Xstring (ECMA-376 part 1, 18.7.2)
                authors = [xstring_decode(_elem_text(x) or "") for x in kids(a, "author")]
            cl = kid(croot, "commentList")
            if cl is not None:
                for cm in kids(cl, "comment"):
                    ai = xint(cm.get("authorId"))
                    txt = kid(cm, "text")
                    it = rst(txt) if txt is not None else {"text": "", "rich": False}
                    out["comments"].append({"ref": cm.get("ref"), "author": authors[ai] if ai is not None and 0 <= ai < len(authors) else None,
                                            "text": it["text"], "rich": it["rich"]})
        elif r["type"].endswith("/table"):
            troot = pkg.xml(tp)
            if troot is None:
                continue
            cols = kid(troot, "tableColumns")
            out["tables"].append({
                "part": tp, "id": troot.get("id"), "name": troot.get("name"), "display_name": troot.get("displayName"),
                "ref": troot.get("ref"), "columns": [c.get("name") for c in kids(cols, "tableColumn")] if cols is not None else [],
                "columns_decoded": [xstring_decode(c.get("name") or "") for c in kids(cols, "tableColumn")] if cols is not None else [],
            })
    return out


def decode(data, with_strings=False):
    pkg = Package(data)
    wb_part = find_workbook_part(pkg)
    if wb_part is None or pkg.xml(wb_part) is None:
        raise PackageError("no readable workbook part")
    wb = pkg.xml(wb_part)
    st = Styles(pkg, wb_part)
    sst = SharedStrings(pkg, wb_part)
    out = {"workbook_part": wb_part, "parts": sorted(pkg.parts), "active_tab": 0, "date1904": False, "sheets": [],
           "defined_names": [], "styles": None, "shared_strings": None}
    bv = kid(wb, "bookViews")
    if bv is not None:
        w = kid(bv, "workbookView")
        if w is not None:
            out["active_tab"] = xint(w.get("activeTab"), 0)
    pr = kid(wb, "workbookPr")
    if pr is not None:
        out["date1904"] = xbool(pr.get("date1904"))
    for s in workbook_sheets(pkg, wb_part):
        sh = dict(s)
        sh["sheet_id"] = xint(s["sheet_id"])
        if s["part"] is not None and s["kind"] == "worksheet":
            sh.update(decode_sheet(pkg, s["part"], sst, len(st.cell_xfs)))
        else:
            sh.update({"cells": [], "merged": [], "hyperlinks": [], "comments": [], "data_validations": [],
                       "conditional_formats": [], "tables": [], "cols": [], "rows": [], "dimension": None, "children": [],
                       "auto_filter": None, "decode_notes": ["not a worksheet"]})
        out["sheets"].append(sh)
    dn = kid(wb, "definedNames")
    if dn is not None:
        for d in kids(dn, "definedName"):
            out["defined_names"].append({"name": d.get("name"), "local_sheet_id": xint(d.get("localSheetId")),
                                         "text": _elem_text(d) or "", "hidden": xbool(d.get("hidden"))})
    out["styles"] = {"part": st.part, "counts": st.counts(), "cell_xfs": st.resolved_xfs(),
                     "num_fmts": [{"id": k, "code": v} for k, v in sorted(st.num_fmts.items())]}
    out["shared_strings"] = {"part": sst.part, "count": sst.count, "unique_count": sst.unique_count, "si": len(sst.items),
                             "items": [{"text": i["text"], "rich": i["rich"], "phonetic": i["phonetic"]} for i in sst.items]}
    if with_strings:
        out["strings"] = _all_strings(pkg)
    return out


def _all_strings(pkg):
    ct = ContentTypes(pkg)
    seen = set()
    for name in sorted(pkg.parts):
        ctype = ct.type_of(name) if ct.present else None
        if not _is_xml_part(name, ctype):
            continue
        root = pkg.xml(name)
        if root is None:
            continue
        for el in root.iter():
            if not isinstance(el.tag, str):
                continue
            for val in el.attrib.values():
                if val:
                    seen.add(val)
            if el.text and el.text.strip():
                seen.add(el.text)
            if el.tail and el.tail.strip():
                seen.add(el.tail)
    return sorted(seen)


def all_strings(data):
    return _all_strings(Package(data))


# ---------------------------------------------------------------------------------------
# worker / CLI

def handle(req):
    op = req.get("op")
    if op == "ping":
        return {"ok": True, "pong": True}
    if "b64" in req:
        try:
            data = base64.b64decode(req["b64"])
        except Exception as e:
            return {"ok": False, "error": "bad base64: %s" % e}
    elif "path" in req:
        try:
            with open(req["path"], "rb") as fh:
                data = fh.read()
        except Exception as e:
            return {"ok": False, "error": "cannot read %s: %s" % (req.get("path"), e)}
    else:
        return {"ok": False, "error": "request needs path or b64"}
    res = {"ok": True, "violations": None, "decoded": None, "decode_error": None}
    if op in ("validate", "both"):
        res["violations"] = validate(data)
    if op in ("decode", "both"):
        try:
            res["decoded"] = decode(data, with_strings=bool(req.get("with_strings")))
        except PackageError as e:
            res["decode_error"] = str(e)
    if op == "strings":
        try:
            res["strings"] = all_strings(data)
        except PackageError as e:
            res["decode_error"] = str(e)
    if op not in ("validate", "decode", "both", "strings"):
        return {"ok": False, "error": "unknown op %r" % op}
    return res


def worker():
    stdin = sys.stdin.buffer
    stdout = sys.stdout.buffer
    while True:
        line = stdin.readline()
        if not line:
            return
        line = line.strip()
        if not line:
            continue
        try:
            req = json.loads(line.decode("utf-8"))
            res = handle(req)
        except Exception as e:  # a bug in this tool: report, never crash silently
            res = {"ok": False, "error": "internal: %s: %s" % (type(e).__name__, e)}
        stdout.write(json.dumps(res, ensure_ascii=True, separators=(",", ":")).encode("ascii"))
        stdout.write(b"\n")
        stdout.flush()


def main(argv):
    if len(argv) >= 2 and argv[1] == "--worker":
        worker()
        return 0
    if len(argv) == 3 and argv[1] in ("validate", "decode", "both", "strings"):
        res = handle({"op": argv[1], "path": argv[2]})
        json.dump(res, sys.stdout, ensure_ascii=False, indent=1)
        sys.stdout.write("\n")
        return 0 if res.get("ok") else 2
    sys.stderr.write(__doc__)
    return 2


if __name__ == "__main__":
    sys.exit(main(sys.argv))
