#!/usr/bin/env python3
"""Self-test of pytools/ooxml_decode.py against hand-written packages (stdlib only).

 * a small valid workbook must validate cleanly and decode to the values written below;
 * every validation rule must fire on a file that breaks exactly that rule (and a valid
   file must not trigger it), so a rule cannot silently stop working;
 * the shared-formula translator and the ST_Xstring decoder on hand-computed examples.
Exit 0 = all good, exit 2 = the oracle is broken (never a verdict about the library).
"""
import io
import os
import sys
import zipfile

sys.path.insert(0, os.path.dirname(os.path.abspath(__file__)))
import ooxml_decode as od  # noqa: E402

NS = 'xmlns="http://schemas.openxmlformats.org/spreadsheetml/2006/main" xmlns:r="http://schemas.openxmlformats.org/officeDocument/2006/relationships"'
RT = "http://schemas.openxmlformats.org/officeDocument/2006/relationships"
PR = "http://schemas.openxmlformats.org/package/2006/relationships"


def base_parts():
    return {
        "[Content_Types].xml": '<Types xmlns="http://schemas.openxmlformats.org/package/2006/content-types">'
        '<Default Extension="rels" ContentType="application/vnd.openxmlformats-package.relationships+xml"/>'
        '<Default Extension="xml" ContentType="application/xml"/>'
        '<Override PartName="/xl/workbook.xml" ContentType="application/vnd.openxmlformats-officedocument.spreadsheetml.sheet.main+xml"/>'
        '<Override PartName="/xl/worksheets/sheet1.xml" ContentType="application/vnd.openxmlformats-officedocument.spreadsheetml.worksheet+xml"/>'
        '<Override PartName="/xl/worksheets/sheet2.xml" ContentType="application/vnd.openxmlformats-officedocument.spreadsheetml.worksheet+xml"/>'
        '<Override PartName="/xl/styles.xml" ContentType="application/vnd.openxmlformats-officedocument.spreadsheetml.styles+xml"/>'
        '<Override PartName="/xl/sharedStrings.xml" ContentType="application/vnd.openxmlformats-officedocument.spreadsheetml.sharedStrings+xml"/>'
        "</Types>",
        "_rels/.rels": '<Relationships xmlns="%s"><Relationship Id="rId1" Type="%s/officeDocument" Target="xl/workbook.xml"/></Relationships>' % (PR, RT),
        "xl/workbook.xml": '<workbook %s><sheets><sheet name="A &amp; B" sheetId="1" r:id="rId1"/><sheet name="Two" sheetId="2" state="hidden" r:id="rId2"/></sheets>'
        '<definedNames><definedName name="n1" localSheetId="1">Two!$A$1</definedName></definedNames></workbook>' % NS,
        "xl/_rels/workbook.xml.rels": '<Relationships xmlns="%s">'
        '<Relationship Id="rId1" Type="%s/worksheet" Target="worksheets/sheet1.xml"/>'
        '<Relationship Id="rId2" Type="%s/worksheet" Target="/xl/worksheets/sheet2.xml"/>'
        '<Relationship Id="rId3" Type="%s/styles" Target="styles.xml"/>'
        '<Relationship Id="rId4" Type="%s/sharedStrings" Target="sharedStrings.xml"/>'
        "</Relationships>" % (PR, RT, RT, RT, RT),
        "xl/styles.xml": "<styleSheet %s>"
        '<numFmts count="1"><numFmt numFmtId="164" formatCode="&quot;$&quot;0.0"/></numFmts>'
        '<fonts count="2"><font><sz val="11"/><name val="Calibri"/></font><font><b/><u/><sz val="9.5"/><color rgb="FFFF0000"/><name val="B&amp;H"/></font></fonts>'
        '<fills count="2"><fill><patternFill patternType="none"/></fill><fill><patternFill patternType="gray125"/></fill></fills>'
        '<borders count="1"><border><left/><right/><top/><bottom/><diagonal/></border></borders>'
        '<cellStyleXfs count="1"><xf numFmtId="0" fontId="0" fillId="0" borderId="0"/></cellStyleXfs>'
        '<cellXfs count="2"><xf numFmtId="0" fontId="0" fillId="0" borderId="0" xfId="0"/>'
        '<xf numFmtId="164" fontId="1" fillId="0" borderId="0" xfId="0" applyFont="1"><alignment horizontal="center" wrapText="1"/></xf></cellXfs>'
        '<dxfs count="1"><dxf><font><b/></font></dxf></dxfs>'
        "</styleSheet>" % NS,
        "xl/sharedStrings.xml": '<sst %s count="3" uniqueCount="3"><si><t>plain</t></si>'
        '<si><r><t xml:space="preserve">rich </t></r><r><rPr><b/></rPr><t>text</t></r><rPh sb="0" eb="1"><t>PHON</t></rPh></si>'
        "<si><t>a_x000D_b _x005F_x0041_</t></si></sst>" % NS,
        "xl/worksheets/sheet1.xml": "<worksheet %s><sheetData>"
        '<row r="1"><c r="A1" t="s"><v>0</v></c><c r="B1" t="s" s="1"><v>1</v></c><c r="C1" t="s"><v>2</v></c></row>'
        '<row r="2"><c r="A2"><v>1E3</v></c><c r="B2" t="b"><v>1</v></c><c r="C2" t="e"><v>#DIV/0!</v></c>'
        '<c r="D2" t="inlineStr"><is><t>123</t></is></c><c r="E2" t="str"><f>A2&amp;"x"</f><v> padded </v></c><c r="F2" t="d"><v>2024-02-29</v></c></row>'
        '<row r="6"><c r="B6"><f t="shared" ref="B6:C7" si="0">A5+C7*$A6+A$5</f><v>1</v></c><c r="C6"><f t="shared" si="0"/><v>2</v></c></row>'
        '<row r="7"><c r="B7"><f t="shared" si="0"/><v>3</v></c></row>'
        '<row r="9"><c><v>5</v></c><c t="n"><v>6</v></c></row>'
        '</sheetData><mergeCells count="1"><mergeCell ref="A10:B11"/></mergeCells>'
        '<conditionalFormatting sqref="A1:A3"><cfRule type="cellIs" dxfId="0" priority="1" operator="equal"><formula>1</formula></cfRule></conditionalFormatting>'
        '<hyperlinks><hyperlink ref="A1" r:id="rId1" tooltip="t&amp;t"/><hyperlink ref="B1" location="\'A &amp;amp; B\'!A1"/></hyperlinks>'
        "</worksheet>" % NS,
        "xl/worksheets/_rels/sheet1.xml.rels": '<Relationships xmlns="%s"><Relationship Id="rId1" Type="%s/hyperlink" Target="https://example.com/?a=1&amp;b=2" TargetMode="External"/></Relationships>' % (PR, RT),
        "xl/worksheets/sheet2.xml": "<worksheet %s><sheetData/></worksheet>" % NS,
    }


def pack(parts, corrupt=None):
    buf = io.BytesIO()
    with zipfile.ZipFile(buf, "w", zipfile.ZIP_DEFLATED) as z:
        z.writestr("xl/", b"")  # directory entry, as some producers write
        for k, v in parts.items():
            z.writestr(k, v if isinstance(v, bytes) else v.encode("utf-8"))
    data = buf.getvalue()
    if corrupt:
        data = corrupt(data)
    return data


FAILS = []


def expect(cond, what):
    if not cond:
        FAILS.append(what)


def rules(data):
    return sorted(set(v["rule"] for v in od.validate(data)))


def main():
    good = pack(base_parts())
    expect(rules(good) == [], "valid file is rejected: %r" % od.validate(good))
    d = od.decode(good)
    s1 = d["sheets"][0]
    cells = {c["ref"]: c for c in s1["cells"]}
    expect([s["name"] for s in d["sheets"]] == ["A & B", "Two"], "sheet names %r" % [s["name"] for s in d["sheets"]])
    expect(d["sheets"][1]["state"] == "hidden" and d["sheets"][1]["part"] == "xl/worksheets/sheet2.xml", "sheet 2 header")
    expect(cells["A1"]["kind"] == "text" and cells["A1"]["value"] == "plain", "A1")
    expect(cells["B1"]["kind"] == "rich" and cells["B1"]["value"] == "rich text" and cells["B1"]["phonetic"] and len(cells["B1"]["runs"]) == 2, "B1 rich %r" % cells["B1"])
    expect(cells["C1"]["value"] == "a\rb _x0041_", "C1 xstring %r" % cells["C1"]["value"])
    expect(cells["A2"]["kind"] == "number" and cells["A2"]["bits"] == "408f400000000000", "A2 number")
    expect(cells["B2"]["kind"] == "bool" and cells["B2"]["value"] == "TRUE", "B2")
    expect(cells["C2"]["kind"] == "error" and cells["C2"]["value"] == "#DIV/0!", "C2")
    expect(cells["D2"]["kind"] == "text" and cells["D2"]["value"] == "123", "D2 inline")
    expect(cells["E2"]["kind"] == "text" and cells["E2"]["value"] == " padded " and cells["E2"]["formula"] == 'A2&"x"' and cells["E2"]["ws_ambiguous"], "E2 str %r" % cells["E2"])
    expect(cells["F2"]["kind"] == "date-iso" and cells["F2"]["value"] == "2024-02-29", "F2")
    expect(cells["B6"]["formula"] == "A5+C7*$A6+A$5" and cells["B6"]["f_master"], "B6 master")
    expect(cells["C6"]["formula"] == "B5+D7*$A6+B$5", "C6 child %r" % cells["C6"]["formula"])
    expect(cells["B7"]["formula"] == "A6+C8*$A7+A$5", "B7 child %r" % cells["B7"]["formula"])
    expect("A9" in cells and "B9" in cells and not cells["A9"]["has_r"] and cells["B9"]["value"] == "6", "cells without r")
    expect(s1["merged"] == ["A10:B11"], "merged")
    h = s1["hyperlinks"]
    expect(h[0]["target"] == "https://example.com/?a=1&b=2" and h[0]["tooltip"] == "t&t" and h[1]["location"] == "'A &amp; B'!A1", "hyperlinks %r" % h)
    expect(d["defined_names"] == [{"name": "n1", "local_sheet_id": 1, "text": "Two!$A$1", "hidden": False}], "defined names %r" % d["defined_names"])
    xf = d["styles"]["cell_xfs"][1]
    expect(xf["num_fmt_code"] == '"$"0.0' and not xf["num_fmt_builtin"] and xf["font"]["name"] == "B&H" and xf["font"]["bold"]
           and xf["font"]["underline"] == "single" and xf["font"]["size"] == "9.5" and xf["alignment"]["horizontal"] == "center"
           and xf["alignment"]["wrap_text"] is True and xf["apply"]["applyFont"] is True and xf["apply"]["applyFill"] is None, "cellXfs[1] %r" % xf)
    expect(d["styles"]["counts"]["dxfs"] == 1 and d["styles"]["counts"]["cellXfs"] == 2 and d["shared_strings"]["si"] == 3
           and d["shared_strings"]["count"] == 3, "table sizes")
    expect(s1["conditional_formats"][0]["sqref"] == "A1:A3", "conditional format")

    # every rule fires on a file that breaks it
    def variant(edit):
        p = base_parts()
        edit(p)
        return p

    def rep(part, old, new):
        def f(p):
            assert old in p[part], (part, old)
            p[part] = p[part].replace(old, new, 1)
        return f

    def drop(part):
        def f(p):
            del p[part]
        return f

    def flip_crc(data):
        # flip one byte of the stored data of the last member without touching the directory
        i = data.rfind(b"<worksheet")
        if i < 0:
            # compressed: damage a byte in the middle of the first local file's data
            i = 200
        b = bytearray(data)
        b[i + 3] ^= 0x55
        return bytes(b)

    tests = [
        ("xml.not-well-formed", variant(rep("xl/worksheets/sheet2.xml", "<sheetData/>", "<sheetData>"))),
        ("xml.not-well-formed", variant(rep("xl/sharedStrings.xml", "plain", "pl\x01ain"))),
        ("xml.not-well-formed", variant(rep("xl/sharedStrings.xml", "plain", "pl&#1;ain"))),
        ("ct.no-type", variant(lambda p: (rep("[Content_Types].xml", '<Default Extension="xml" ContentType="application/xml"/>', "")(p),
                                           rep("[Content_Types].xml", '<Override PartName="/xl/worksheets/sheet2.xml" ContentType="application/vnd.openxmlformats-officedocument.spreadsheetml.worksheet+xml"/>', "")(p)))),
        ("ct.override-missing-part", variant(rep("[Content_Types].xml", "</Types>", '<Override PartName="/xl/comments1.xml" ContentType="x/y"/></Types>'))),
        ("ct.missing", variant(drop("[Content_Types].xml"))),
        ("ct.wrong-type", variant(rep("[Content_Types].xml", '<Override PartName="/xl/styles.xml" ContentType="application/vnd.openxmlformats-officedocument.spreadsheetml.styles+xml"/>', ""))),
        ("rel.target-missing", variant(drop("xl/worksheets/sheet2.xml"))),
        ("rel.duplicate-id", variant(rep("xl/_rels/workbook.xml.rels", 'Id="rId4"', 'Id="rId3"'))),
        ("rel.unresolved-rid", variant(rep("xl/worksheets/sheet1.xml", '<hyperlink ref="A1" r:id="rId1"', '<hyperlink ref="A1" r:id="rId9"'))),
        ("rel.wrong-type", variant(rep("xl/_rels/workbook.xml.rels", "%s/worksheet\" Target=\"worksheets/sheet1.xml" % RT, "%s/theme\" Target=\"worksheets/sheet1.xml" % RT))),
        ("wb.sheet-name-duplicate", variant(rep("xl/workbook.xml", 'name="Two"', 'name="a &amp; b"'))),
        ("wb.sheet-name-illegal", variant(rep("xl/workbook.xml", 'name="Two"', 'name="T/wo"'))),
        ("wb.sheet-name-illegal", variant(rep("xl/workbook.xml", 'name="Two"', 'name="%s"' % ("x" * 32)))),
        ("wb.sheetid-duplicate", variant(rep("xl/workbook.xml", 'sheetId="2"', 'sheetId="1"'))),
        ("wb.defined-name-duplicate", variant(rep("xl/workbook.xml", "</definedNames>", '<definedName name="N1" localSheetId="1">1</definedName></definedNames>'))),
        ("wb.localsheetid-range", variant(rep("xl/workbook.xml", 'localSheetId="1"', 'localSheetId="2"'))),
        ("ws.child-order", variant(rep("xl/worksheets/sheet1.xml", "<worksheet %s><sheetData>" % NS, '<worksheet %s><mergeCells count="1"><mergeCell ref="D10:E11"/></mergeCells><sheetData>' % NS))),
        ("ws.row-order", variant(rep("xl/worksheets/sheet1.xml", '<row r="7">', '<row r="5">'))),
        ("ws.cell-row-mismatch", variant(rep("xl/worksheets/sheet1.xml", '<c r="B7">', '<c r="B8">'))),
        ("ws.cell-order", variant(rep("xl/worksheets/sheet1.xml", '<c r="C1" t="s">', '<c r="A1" t="s">'))),
        ("ws.coord-range", variant(rep("xl/worksheets/sheet1.xml", '<c r="F2" t="d">', '<c r="XFE2" t="d">'))),
        ("ws.coord-range", variant(rep("xl/worksheets/sheet1.xml", '<row r="9">', '<row r="1048577">'))),
        ("ws.sst-index", variant(rep("xl/worksheets/sheet1.xml", "<v>2</v></c></row>", "<v>3</v></c></row>"))),
        ("ws.style-index", variant(rep("xl/worksheets/sheet1.xml", 's="1"', 's="2"'))),
        ("ws.dxf-id", variant(rep("xl/worksheets/sheet1.xml", 'dxfId="0"', 'dxfId="1"'))),
        ("styles.font-id", variant(rep("xl/styles.xml", 'fontId="1"', 'fontId="2"'))),
        ("styles.fill-id", variant(rep("xl/styles.xml", '<xf numFmtId="164" fontId="1" fillId="0"', '<xf numFmtId="164" fontId="1" fillId="2"'))),
        ("styles.border-id", variant(rep("xl/styles.xml", 'borderId="0" xfId="0" applyFont="1"', 'borderId="1" xfId="0" applyFont="1"'))),
        ("styles.xf-id", variant(rep("xl/styles.xml", 'xfId="0" applyFont="1"', 'xfId="1" applyFont="1"'))),
        ("styles.numfmt-id", variant(rep("xl/styles.xml", '<xf numFmtId="164"', '<xf numFmtId="165"'))),
    ]
    for rule, parts in tests:
        got = rules(pack(parts))
        expect(rule in got, "rule %s does not fire (got %r)" % (rule, got))
    # zip level
    stored = io.BytesIO()
    with zipfile.ZipFile(stored, "w", zipfile.ZIP_STORED) as z:
        for k, v in base_parts().items():
            z.writestr(k, v.encode("utf-8"))
    got = rules(flip_crc(stored.getvalue()))
    expect("zip.crc" in got, "zip.crc does not fire (got %r)" % got)
    expect(rules(b"this is not a zip file") == ["zip.open"], "zip.open")
    # table rules
    tparts = base_parts()
    tparts["xl/worksheets/sheet1.xml"] = tparts["xl/worksheets/sheet1.xml"].replace("</worksheet>", '<tableParts count="2"><tablePart r:id="rId2"/><tablePart r:id="rId3"/></tableParts></worksheet>')
    tparts["xl/worksheets/_rels/sheet1.xml.rels"] = tparts["xl/worksheets/_rels/sheet1.xml.rels"].replace(
        "</Relationships>", '<Relationship Id="rId2" Type="%s/table" Target="../tables/table1.xml"/><Relationship Id="rId3" Type="%s/table" Target="../tables/table2.xml"/></Relationships>' % (RT, RT))
    tbl = '<table %s id="%d" name="%s" displayName="%s" ref="A20:B21"><tableColumns count="2"><tableColumn id="1" name="a&amp;b"/><tableColumn id="2" name="c"/></tableColumns></table>'
    tparts["xl/tables/table1.xml"] = tbl % (NS, 1, "T1", "T1")
    tparts["xl/tables/table2.xml"] = tbl % (NS, 2, "T2", "T2")
    tparts["[Content_Types].xml"] = tparts["[Content_Types].xml"].replace("</Types>", "".join(
        '<Override PartName="/xl/tables/table%d.xml" ContentType="application/vnd.openxmlformats-officedocument.spreadsheetml.table+xml"/>' % i for i in (1, 2)) + "</Types>")
    expect(rules(pack(tparts)) == [], "valid tables rejected: %r" % od.validate(pack(tparts)))
    expect(od.decode(pack(tparts))["sheets"][0]["tables"][0]["columns"] == ["a&b", "c"], "table columns")
    bad = dict(tparts)
    bad["xl/tables/table2.xml"] = tbl % (NS, 1, "T1", "T1")
    got = rules(pack(bad))
    expect("table.id-duplicate" in got and "table.name-duplicate" in got, "table rules (got %r)" % got)

    # translator and escapes
    for text, dc, dr, exp in [("A1+C3", 0, 1, "A2+C4"), ("$A1+A$1+$A$1", 2, 3, "$A4+C$1+$A$1"), ("SUM(A1:B2)", 1, 1, "SUM(B2:C3)"),
                              ("'My Sheet'!A1+Sheet2!B2", 1, 0, "'My Sheet'!B1+Sheet2!C2"), ('"A1"&A1', 0, 1, '"A1"&A2'), ("LOG10(A1)", 0, 1, "LOG10(A2)"),
                              ("A:A", 1, 0, "B:B"), ("1:1", 0, 2, "3:3"), ("T[[#This Row],[A1]]+A1", 0, 1, "T[[#This Row],[A1]]+A2"), ("XFE1+XFD1", 0, 1, "XFE1+XFD2")]:
        got, unc = od.translate_formula(text, dc, dr)
        expect(got == exp and not unc, "translate %r by (%d,%d): %r" % (text, dc, dr, got))
    expect(od.translate_formula("A1", -1, 0)[1], "leaving the grid must be flagged uncertain")
    if FAILS:
        for f in FAILS:
            print("ORACLE-SELFTEST-FAIL:", f)
        return 2
    print("oracle self-test: ok (%d rule checks)" % (len(tests) + 4))
    return 0


if __name__ == "__main__":
    sys.exit(main())
